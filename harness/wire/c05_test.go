// Package wire drives the cache behind a real net/http client transport that
// talks to raw HTTP/1.0 / 1.1 byte scripts over net.Pipe and to an HTTP/2
// (unencrypted) server on loopback, so that the http.Response objects the
// cache stores have exactly the shape real framing produces (C05).
package wire

import (
	"bufio"
	"bytes"
	"context"
	"errors"
	"fmt"
	"io"
	"math/rand/v2"
	"net"
	"net/http"
	"os"
	"runtime"
	"sort"
	"strconv"
	"strings"
	"sync"
	"testing"
	"time"

	"github.com/bartventer/httpcache"
	"github.com/bartventer/httpcache/store/driver"
	"github.com/bartventer/httpcache/store/fscache"
	"github.com/bartventer/httpcache/store/memcache"

	"verif/harness/run"
	"verif/harness/sim"
)

const testKeyB64 = "MDEyMzQ1Njc4OWFiY2RlZjAxMjM0NTY3ODlhYmNkZWY="

type hdr struct{ K, V string }

type wireCase struct {
	Proto     string `json:"proto"`   // h1.1 | h1.0 | h2
	Framing   string `json:"framing"` // content-length | chunked | chunked-trailer | close | none
	Status    int    `json:"status"`
	BodySize  int    `json:"body_size"`
	BodyClass string `json:"body_class"`
	Headers   []hdr  `json:"headers"`
	Backend   string `json:"backend"`
	HopSet    string `json:"hop_set"`
}

var hopByHop = []string{"Connection", "Keep-Alive", "Te", "Transfer-Encoding", "Upgrade", "Proxy-Connection", "Proxy-Authenticate", "Proxy-Authentication-Info", "Proxy-Authorization"}

func genCase(r *rand.Rand) wireCase {
	c := wireCase{Proto: pick(r, []string{"h1.1", "h1.1", "h1.0", "h2"}), Status: pick(r, []int{200, 200, 200, 203, 404, 410, 301}), Backend: pick(r, []string{"mem", "fs", "fsaes"})}
	switch c.Proto {
	case "h1.1":
		c.Framing = pick(r, []string{"content-length", "chunked", "chunked-trailer", "close"})
	case "h1.0":
		c.Framing = pick(r, []string{"content-length", "close"})
	default:
		c.Framing = pick(r, []string{"content-length", "none", "chunked-trailer"})
	}
	c.BodySize = pick(r, []int{0, 1, 2, 100, 4095, 4096, 4097, 65535, 65536, 65537})
	if r.IntN(40) == 0 {
		c.BodySize = 1 << 20
	}
	c.BodyClass = string(pick(r, []byte{'r', 'c', 'h', 't'}))
	pool := []hdr{
		{"Set-Cookie", "a=1; Path=/"}, {"Set-Cookie", "b=2"}, {"Set-Cookie", "c=\"3, 4\"; HttpOnly"},
		{"X-Multi", "one"}, {"X-Multi", "two, three"}, {"X-Multi", "one"},
		{"X-Empty", ""}, {"X-Quoted", `"a, b", "c\"d"`}, {"X-Long", strings.Repeat("v", 8192)},
		{"X-Obs", "caf\xe9 \xff"}, {"X-Under_score", "1"}, {"x-lower", "kept?"}, {"X-~Tilde!#$%&'*+.^`|", "odd"},
		{"Content-Type", "text/plain; charset=\"utf-8\""}, {"Content-Language", "en, fr"}, {"Link", "</a>; rel=next, </b>; rel=prev"},
		{"Warning", `199 - "misc"`}, {"Via", "1.1 proxy"}, {"X-Sp", "in  ner   spaces"}, {"Content-Encoding", "identity"},
		{"X-Http", "HTTP/1.1 200 OK"}, {"Etag", `W/"weak"`}, {"Last-Modified", "Sat, 01 Jan 2000 00:00:00 GMT"},
	}
	n := r.IntN(10)
	for i := 0; i < n; i++ {
		c.Headers = append(c.Headers, pick(r, pool))
	}
	c.HopSet = pick(r, []string{"", "", "conn-named", "conn-two-lines", "keep-alive", "proxy", "upgrade"})
	return c
}

func pick[T any](r *rand.Rand, xs []T) T { return xs[r.IntN(len(xs))] }

func hopHeaders(set string) []hdr {
	switch set {
	case "conn-named":
		return []hdr{{"Connection", "X-Hop, keep-alive"}, {"X-Hop", "secret"}, {"Keep-Alive", "timeout=5"}}
	case "conn-two-lines":
		return []hdr{{"Connection", "keep-alive"}, {"Connection", "X-Hop2"}, {"X-Hop2", "secret2"}}
	case "keep-alive":
		return []hdr{{"Keep-Alive", "timeout=5, max=100"}, {"Proxy-Connection", "keep-alive"}}
	case "proxy":
		return []hdr{{"Proxy-Authenticate", "Basic realm=x"}, {"Proxy-Authentication-Info", "nextnonce=1"}}
	case "upgrade":
		return []hdr{{"Upgrade", "h2c"}, {"TE", "trailers"}}
	}
	return nil
}

// rawResponse renders the byte script of an HTTP/1.x response.
func rawResponse(c *wireCase, body []byte) []byte {
	var b bytes.Buffer
	ver := "HTTP/1.1"
	if c.Proto == "h1.0" {
		ver = "HTTP/1.0"
	}
	fmt.Fprintf(&b, "%s %d %s\r\n", ver, c.Status, http.StatusText(c.Status))
	b.WriteString("Etag: \"wire\"\r\nCache-Control: max-age=100000\r\nDate: " + time.Now().UTC().Format(http.TimeFormat) + "\r\n")
	for _, h := range append(append([]hdr(nil), c.Headers...), hopHeaders(c.HopSet)...) {
		fmt.Fprintf(&b, "%s: %s\r\n", h.K, h.V)
	}
	switch c.Framing {
	case "content-length":
		fmt.Fprintf(&b, "Content-Length: %d\r\n\r\n", len(body))
		b.Write(body)
	case "chunked", "chunked-trailer":
		b.WriteString("Transfer-Encoding: chunked\r\n")
		if c.Framing == "chunked-trailer" {
			b.WriteString("Trailer: X-Trail\r\n")
		}
		b.WriteString("\r\n")
		rest := body
		sizes := []int{1, 7, 4096, 13, 65536, 3}
		for i := 0; len(rest) > 0; i++ {
			n := min(sizes[i%len(sizes)], len(rest))
			fmt.Fprintf(&b, "%x\r\n", n)
			b.Write(rest[:n])
			b.WriteString("\r\n")
			rest = rest[n:]
		}
		b.WriteString("0\r\n")
		if c.Framing == "chunked-trailer" {
			b.WriteString("X-Trail: end\r\n")
		}
		b.WriteString("\r\n")
	default: // close-delimited
		b.WriteString("Connection: close\r\n\r\n")
		b.Write(body)
	}
	return b.Bytes()
}

// snapshot of what the real client transport handed to the cache
type snap struct {
	status  int
	proto   string
	header  http.Header
	body    []byte
	bodyErr error
	trailer http.Header
}

// snapper wraps the real client transport: it records the origin response
// before the cache sees it and passes it on with an equivalent body.
type snapper struct {
	next  http.RoundTripper
	mu    sync.Mutex
	snaps []*snap
}

type replayBody struct {
	r   *bytes.Reader
	err error
}

func (b *replayBody) Read(p []byte) (int, error) {
	n, err := b.r.Read(p)
	if err == io.EOF && b.err != nil {
		return n, b.err
	}
	return n, err
}
func (b *replayBody) Close() error { return nil }

func (s *snapper) RoundTrip(req *http.Request) (*http.Response, error) {
	resp, err := s.next.RoundTrip(req)
	if err != nil {
		return nil, err
	}
	body, rerr := io.ReadAll(resp.Body)
	resp.Body.Close()
	sn := &snap{status: resp.StatusCode, proto: resp.Proto, header: resp.Header.Clone(), body: body, bodyErr: rerr, trailer: resp.Trailer.Clone()}
	s.mu.Lock()
	s.snaps = append(s.snaps, sn)
	s.mu.Unlock()
	resp.Body = &replayBody{r: bytes.NewReader(body), err: rerr}
	return resp, nil
}

// pipeTransport is an http.Transport whose connections are net.Pipe ends
// served with the raw script.
func pipeTransport(script func(reqText string) []byte) *http.Transport {
	return &http.Transport{
		DisableKeepAlives:  true,
		DisableCompression: true,
		DialContext: func(ctx context.Context, network, addr string) (net.Conn, error) {
			cli, srv := net.Pipe()
			go func() {
				defer srv.Close()
				br := bufio.NewReader(srv)
				var reqText strings.Builder
				for {
					line, err := br.ReadString('\n')
					if err != nil {
						return
					}
					reqText.WriteString(line)
					if line == "\r\n" {
						break
					}
				}
				srv.Write(script(reqText.String()))
			}()
			return cli, nil
		},
	}
}

func openBackend(name, dir string) (driver.Conn, error) {
	switch name {
	case "fs":
		return fscache.Open("c", fscache.WithBaseDir(dir))
	case "fsaes":
		return fscache.Open("c", fscache.WithBaseDir(dir), fscache.WithEncryption(testKeyB64))
	}
	return memcache.Open(), nil
}

var (
	h2once sync.Once
	h2srv  *http.Server
	h2addr string
	h2mu   sync.Mutex
	h2case *wireCase
	h2body []byte
)

func startH2(t *testing.T) bool {
	ok := true
	h2once.Do(func() {
		ln, err := net.Listen("tcp", "127.0.0.1:0")
		if err != nil {
			ok = false
			return
		}
		h2addr = ln.Addr().String()
		p := new(http.Protocols)
		p.SetUnencryptedHTTP2(true)
		p.SetHTTP1(true)
		h2srv = &http.Server{Protocols: p, Handler: http.HandlerFunc(func(w http.ResponseWriter, r *http.Request) {
			h2mu.Lock()
			c, body := h2case, h2body
			h2mu.Unlock()
			h := w.Header()
			h.Set("Cache-Control", "max-age=100000")
			h.Set("Date", time.Now().UTC().Format(http.TimeFormat))
			for _, x := range append(append([]hdr(nil), c.Headers...), hopHeaders("")...) {
				h.Add(x.K, x.V)
			}
			switch c.Framing {
			case "content-length":
				h.Set("Content-Length", strconv.Itoa(len(body)))
			case "chunked-trailer":
				h.Set("Trailer", "X-Trail")
			}
			w.WriteHeader(c.Status)
			half := len(body) / 2
			w.Write(body[:half])
			if f, ok := w.(http.Flusher); ok && c.Framing != "content-length" {
				f.Flush()
			}
			w.Write(body[half:])
			if c.Framing == "chunked-trailer" {
				h.Set("X-Trail", "end")
			}
		})}
		go h2srv.Serve(ln)
	})
	return ok && h2addr != ""
}

func TestC05Wire(t *testing.T) {
	r := run.Start(t, "C05", "wire")
	defer r.Finish()
	n := r.Tiered(400, 20000)
	for i := 0; i < n; i++ {
		if !r.Mine(i) {
			continue
		}
		c := genCase(r.Rand(i))
		r.Begin(i, c)
		runCase(t, r, &c, i)
		if i%25 == 0 {
			runtime.GC()
		}
	}
	if h2srv != nil {
		h2srv.Close()
	}
	r.Done()
}

func runCase(t *testing.T, r *run.Runner, c *wireCase, idx int) {
	serial := fmt.Sprintf("w%d", idx)
	body := sim.MakeBody(serial, c.BodySize, c.BodyClass[0])
	if c.BodySize == 0 && idx%2 == 0 {
		body = nil // a truly empty body
	}
	var inner http.RoundTripper
	var replaceBody []byte
	url := "http://wire.example/x"
	if c.Proto == "h2" {
		if !startH2(t) {
			r.Count("h2_unavailable", 1)
			return
		}
		h2mu.Lock()
		h2case, h2body = c, body
		h2mu.Unlock()
		p := new(http.Protocols)
		p.SetUnencryptedHTTP2(true)
		inner = &http.Transport{Protocols: p, DisableCompression: true}
		url = "http://" + h2addr + "/x"
		defer inner.(*http.Transport).CloseIdleConnections()
	} else {
		inner = pipeTransport(func(reqText string) []byte {
			if replaceBody != nil {
				return rawResponse(c, replaceBody) // a full reply to the validation request
			}
			if strings.Contains(strings.ToLower(reqText), "if-none-match:") {
				// validation: a 304 that nominates hop-by-hop fields of its own and updates one field
				// (every third 304 names no field in Connection: only the fixed hop-by-hop set applies)
				nominated := "Connection: X-Hop304\r\nX-Hop304: leak\r\n"
				if idx%3 == 1 {
					nominated = ""
				}
				return []byte("HTTP/1.1 304 Not Modified\r\nEtag: \"wire\"\r\nDate: " + time.Now().UTC().Format(http.TimeFormat) +
					"\r\nCache-Control: max-age=100000\r\n" + nominated + "Keep-Alive: timeout=1\r\nX-New: from-304\r\n\r\n")
			}
			return rawResponse(c, body)
		})
	}
	sn := &snapper{next: inner}
	dir := ""
	if c.Backend != "mem" {
		base := os.Getenv("VERIF_SCRATCH")
		if base == "" {
			base = os.TempDir()
		}
		dir, _ = os.MkdirTemp(base, "wire-")
		defer os.RemoveAll(dir)
	}
	be, err := openBackend(c.Backend, dir)
	if err != nil {
		r.Inconclusive("backend: " + err.Error())
		return
	}
	rec := sim.NewRecStore(be)
	dsn, release := sim.RegisterConn(rec)
	defer release()
	rt := httpcache.NewTransport(dsn, httpcache.WithUpstream(sn))
	sig := fmt.Sprintf("proto=%s,framing=%s", c.Proto, c.Framing)
	get := func() (*http.Response, []byte, error, error) {
		req, _ := http.NewRequest("GET", url, nil)
		resp, err := rt.RoundTrip(req)
		if err != nil {
			return nil, nil, err, nil
		}
		b, rerr := io.ReadAll(resp.Body)
		resp.Body.Close()
		return resp, b, nil, rerr
	}
	// 1. miss: the client gets the origin's exact body
	resp1, b1, err1, rerr1 := get()
	r.AddEvaluations(1)
	if err1 != nil || len(sn.snaps) != 1 {
		r.Violation("miss-failed", sig, fmt.Sprintf("first request failed: %v (origin calls %d)", err1, len(sn.snaps)), nil)
		return
	}
	o := sn.snaps[0]
	if o.bodyErr != nil {
		r.Inconclusive(fmt.Sprintf("origin body error in the wire harness: %v (%s)", o.bodyErr, sig))
		return
	}
	if !bytes.Equal(o.body, body) {
		r.Inconclusive(fmt.Sprintf("wire harness: origin body differs from the script (%d vs %d bytes, %s)", len(o.body), len(body), sig))
		return
	}
	if rerr1 != nil || !bytes.Equal(b1, o.body) {
		r.Violation("miss-body-differs", sig, fmt.Sprintf("the response forwarded on a miss carries %d body bytes (read error %v), the origin sent %d", len(b1), rerr1, len(o.body)), nil)
	}
	if resp1.StatusCode != o.status {
		r.Violation("miss-status-differs", sig, fmt.Sprintf("status %d forwarded, origin sent %d", resp1.StatusCode, o.status), nil)
	}
	// hop-by-hop names for a response
	hopOf := func(o *snap) map[string]bool {
		hop := map[string]bool{}
		for _, h := range hopByHop {
			hop[h] = true
		}
		for _, line := range o.header.Values("Connection") {
			for _, f := range strings.Split(line, ",") {
				if f = strings.TrimSpace(f); f != "" {
					hop[http.CanonicalHeaderKey(f)] = true
				}
			}
		}
		return hop
	}
	// store values: no hop-by-hop field in a stored header block
	scanStore := func(o *snap, fromOp int, label string) {
		hop := hopOf(o)
		for _, op := range rec.Ops(fromOp) {
			if op.Op != "set" || !bytes.Contains(op.Value, []byte("\r\n\r\n")) {
				continue
			}
			block := op.Value[:bytes.Index(op.Value, []byte("\r\n\r\n"))]
			for _, line := range strings.Split(string(block), "\r\n")[1:] {
				name, _, ok := strings.Cut(line, ":")
				// framing fields the serialisation itself adds to the dump (Connection:
				// close, Transfer-Encoding: chunked) are not the origin's fields: only
				// hop-by-hop fields the cache received from the origin count
				val := strings.TrimSpace(strings.TrimPrefix(line, name+":"))
				fromOrigin := false
				for _, ov := range o.header.Values(name) {
					if strings.TrimSpace(ov) == val {
						fromOrigin = true
					}
				}
				if (strings.EqualFold(name, "Connection") && val == "close") || (strings.EqualFold(name, "Transfer-Encoding") && val == "chunked") {
					continue // indistinguishable from the dump's own framing; judged on replay
				}
				if ok && hop[http.CanonicalHeaderKey(name)] && fromOrigin {
					r.Violation("hop-by-hop-stored", sig+label+",field="+hopClass(name), fmt.Sprintf("hop-by-hop field %q was written to the store: %q", name, line), nil)
				}
			}
		}
	}
	scanStore(o, 0, "")
	// 2. from the store
	resp2, b2, err2, rerr2 := get()
	r.AddEvaluations(1)
	if err2 != nil {
		r.Violation("hit-failed", sig, fmt.Sprintf("second request failed: %v", err2), nil)
		return
	}
	if len(sn.snaps) != 1 {
		r.Count("not_served_from_store", 1)
		return
	}
	r.Count("served_from_store", 1)
	r.Nontrivial(fmt.Sprintf("%+v", *c))
	r.Count("proto:"+c.Proto+"/"+c.Framing, 1)
	r.Count("backend:"+c.Backend, 1)
	compareHit := func(o *snap, resp2 *http.Response, b2 []byte, rerr2 error, label string) {
		hop := hopOf(o)
		if resp2.StatusCode != o.status {
			r.Violation("status-differs", sig+label, fmt.Sprintf("stored response has status %d, origin sent %d", resp2.StatusCode, o.status), nil)
		}
		if rerr2 != nil || !bytes.Equal(b2, o.body) {
			at := 0
			for at < len(b2) && at < len(o.body) && b2[at] == o.body[at] {
				at++
			}
			r.Violation("body-differs", sig+label+fmt.Sprintf(",class=%s", c.BodyClass), fmt.Sprintf("stored body differs from the origin's: %d vs %d bytes, first difference at %d, read error %v (backend %s)", len(b2), len(o.body), at, rerr2, c.Backend), nil)
		}
		// end-to-end header fields: ordered value lists
		own := map[string]bool{"Age": true, "X-Httpcache-Status": true, "X-From-Cache": true}
		for k, vs := range o.header {
			if hop[k] {
				continue
			}
			got := resp2.Header[k]
			if k == "Content-Length" && len(got) > 0 {
				continue // a value that is present is judged against the body below
			}
			if !equalStrings(got, vs) {
				r.Violation("header-differs", sig+label+",field="+fieldClass(k), fmt.Sprintf("end-to-end field %s: origin sent %q, stored response has %q", k, trunc(vs), trunc(got)), nil)
			}
		}
		var extra []string
		for k := range resp2.Header {
			if _, sent := o.header[k]; !sent && !own[k] {
				// (also a Content-Length the origin never sent - chunked or
				// close-delimited replies: "plus only the cache's own Age and status fields")
				extra = append(extra, k)
			}
			if hop[k] {
				r.Violation("hop-by-hop-replayed", sig+label+",field="+hopClass(k), fmt.Sprintf("hop-by-hop field %s: %q replayed from the store", k, resp2.Header[k]), nil)
			}
		}
		sort.Strings(extra)
		for _, k := range extra {
			if hop[k] {
				continue
			}
			r.Violation("extra-field", sig+label+",field="+fieldClass(k), fmt.Sprintf("stored response carries field %s: %q that the origin did not send", k, resp2.Header[k]), nil)
		}
		if len(o.trailer) > 0 {
			if equalStrings(o.trailer["X-Trail"], resp2.Trailer["X-Trail"]) {
				r.Count("obs:trailer-preserved", 1)
			} else {
				r.Count("obs:trailer-lost", 1)
			}
		}
		if cl := resp2.Header.Get("Content-Length"); cl != "" && cl != strconv.Itoa(len(o.body)) {
			r.Violation("content-length-wrong", sig+label, fmt.Sprintf("Content-Length %s on a stored response with %d body bytes", cl, len(o.body)), nil)
		}
	}
	compareHit(o, resp2, b2, rerr2, "")
	// 3. revalidation (HTTP/1.x scripts only): the 304's hop-by-hop fields are
	// not merged, its end-to-end field is, the body stays exact - also on the
	// next request served from the store
	if c.Proto != "h2" {
		for k, cc := range []string{"no-cache", ""} {
			req, _ := http.NewRequest("GET", url, nil)
			if cc != "" {
				req.Header.Set("Cache-Control", cc)
			}
			resp, err := rt.RoundTrip(req)
			if err != nil {
				r.Violation("revalidation-failed", sig, fmt.Sprintf("request %d after the hit failed: %v", k+3, err), nil)
				break
			}
			b, rerr := io.ReadAll(resp.Body)
			resp.Body.Close()
			r.AddEvaluations(1)
			if k == 0 && len(sn.snaps) != 2 {
				r.Count("revalidation_not_sent", 1)
				break
			}
			if rerr != nil || !bytes.Equal(b, o.body) {
				r.Violation("body-differs", sig+",after-304", fmt.Sprintf("body after a 304 differs from the origin's: %d vs %d bytes (read error %v)", len(b), len(o.body), rerr), nil)
			}
			for _, hk := range []string{"X-Hop304", "Keep-Alive", "Connection"} {
				if v := resp.Header.Values(hk); len(v) > 0 {
					r.Violation("hop-by-hop-replayed", sig+",after-304,field="+hopClass(hk), fmt.Sprintf("hop-by-hop field %s: %q of a 304 was merged into the stored response (request %d)", hk, v, k+3), nil)
				}
			}
			if resp.Header.Get("X-New") != "from-304" {
				r.Violation("header-differs", sig+",after-304,field=other", fmt.Sprintf("end-to-end field X-New of the 304 is missing on request %d", k+3), nil)
			}
			r.Count("requests_after_304", 1)
		}
	}
	// 4. replacement (HTTP/1.x scripts only): a forced validation is answered with
	// a full reply (same framing and hop-by-hop set, another body); what is
	// forwarded, what is written and what the next hit returns are judged again
	if c.Proto != "h2" {
		body2 := sim.MakeBody(serial+"b", c.BodySize+7, c.BodyClass[0])
		replaceBody = body2
		opsBefore, callsBefore := len(rec.Ops(0)), len(sn.snaps)
		req, _ := http.NewRequest("GET", url, nil)
		req.Header.Set("Cache-Control", "no-cache")
		resp, err := rt.RoundTrip(req)
		if err != nil {
			r.Violation("replacement-failed", sig, fmt.Sprintf("forced validation answered with a full reply failed: %v", err), nil)
		} else {
			b, rerr := io.ReadAll(resp.Body)
			resp.Body.Close()
			r.AddEvaluations(1)
			if len(sn.snaps) == callsBefore+1 && sn.snaps[callsBefore].bodyErr == nil && bytes.Equal(sn.snaps[callsBefore].body, body2) {
				o2 := sn.snaps[callsBefore]
				if rerr != nil || !bytes.Equal(b, o2.body) {
					r.Violation("miss-body-differs", sig+",replacement", fmt.Sprintf("the full reply to a validation request was forwarded with %d body bytes (read error %v), the origin sent %d", len(b), rerr, len(o2.body)), nil)
				}
				scanStore(o2, opsBefore, ",replacement")
				resp3, b3, err3, rerr3 := get()
				r.AddEvaluations(1)
				switch {
				case err3 != nil:
					r.Violation("hit-failed", sig+",replacement", fmt.Sprintf("request after the replacement failed: %v", err3), nil)
				case len(sn.snaps) != callsBefore+1:
					r.Count("replacement_not_served_from_store", 1)
				default:
					compareHit(o2, resp3, b3, rerr3, ",replacement")
					r.Count("replacements_compared", 1)
				}
			} else {
				r.Count("replacement_not_observed", 1)
			}
		}
		replaceBody = nil
	}
	if r.WantSample() {
		r.Sample(map[string]any{"case": map[string]any{"proto": c.Proto, "framing": c.Framing, "status": c.Status, "body_size": c.BodySize, "body_class": c.BodyClass, "n_headers": len(c.Headers), "backend": c.Backend, "hop_set": c.HopSet},
			"origin_header_fields": len(o.header), "stored_header_fields": len(resp2.Header), "trailer_at_origin": o.trailer, "trailer_from_store": resp2.Trailer})
	}
	_ = errors.Is
	_ = time.Now
}

func equalStrings(a, b []string) bool {
	if len(a) != len(b) {
		return false
	}
	for i := range a {
		if a[i] != b[i] {
			return false
		}
	}
	return true
}

func trunc(vs []string) []string {
	var out []string
	for _, v := range vs {
		if len(v) > 60 {
			v = v[:60] + "…"
		}
		out = append(out, v)
	}
	return out
}

func hopClass(n string) string {
	n = http.CanonicalHeaderKey(strings.TrimSpace(n))
	for _, h := range hopByHop {
		if n == h {
			return n
		}
	}
	return "named-by-connection"
}

func fieldClass(k string) string {
	switch k {
	case "Set-Cookie", "X-Multi":
		return "multi-valued"
	case "Date", "Content-Type", "Etag", "Last-Modified":
		return k
	}
	return "other"
}
