package rfc

import (
	"fmt"
	"net/http"
	"testing"
	"time"

	"verif/harness/mon"
	"verif/harness/run"
	"verif/harness/sim"
)

// TestC02ClientCond: clients that send their own preconditions. A response v1
// is stored (with no validator, Last-Modified only, ETag only, or both); the
// origin moves on to v2; a client that holds v2 (or something else) asks with
// If-None-Match / If-Modified-Since of its own while the stored response needs
// validation. A 304 then says "your copy is current" - it validates the stored
// v1 only if the precondition the origin evaluated was copied from v1. The
// stored body may come back only after such a validation; otherwise the
// origin's own answer (the 304, or a full v2) is returned, and nothing of the
// exchange may turn the stored v1 into something that is served later under
// v2's validators.
type c02ccCase struct {
	StoredCC   string `json:"stored_cc"`
	Validators string `json:"stored_validators"` // none | lm | etag | both
	Client     string `json:"client_precondition"`
	ReqCC      string `json:"req_cc"`
	ElapsedS   int64  `json:"elapsed_s"`
}

func TestC02ClientCond(t *testing.T) {
	r := run.Start(t, "C02", "client-conditionals")
	defer r.Finish()
	var cases []c02ccCase
	for _, st := range []string{"no-cache", "max-age=5, must-revalidate", "max-age=5", "max-age=100000", "max-age=5, stale-while-revalidate=1000"} {
		for _, v := range []string{"none", "lm", "etag", "both"} {
			for _, cl := range []string{"inm-v2", "inm-v1", "inm-other", "ims-v2", "ims-v1", "inm-v2+ims-v2", "inm-other+ims-v2", "inm-star"} {
				for _, rq := range []string{"", "no-cache", "max-age=0"} {
					cases = append(cases, c02ccCase{st, v, cl, rq, 30})
				}
			}
		}
	}
	r.SetExhaustive(true)
	for i, c := range cases {
		if !r.Mine(i) {
			continue
		}
		r.Begin(i, c)
		if fail := r.Bubble(func() { c02ccRun(r, c) }); fail != "" {
			r.Violation("bubble", "bubble-failure", "bubble failed: "+firstLine(fail), c)
		}
	}
	r.Done()
}

func c02ccRun(r *run.Runner, c c02ccCase) {
	version := 1
	var lmOf [3]string
	w := sim.NewWorld(sim.WorldOpt{Handler: func(uc *sim.UpCall, req *http.Request) *sim.Reply {
		etag := fmt.Sprintf(`"v%d"`, version)
		// RFC 9110 §13.2.2: If-None-Match is evaluated; If-Modified-Since only in its absence
		if inm := req.Header.Get("If-None-Match"); inm != "" {
			if inm == etag || inm == "*" {
				return Render(&RespSpec{Status: 304, ETag: etag, CC: []string{c.StoredCC}}, uc.Enter, uc.Serial)
			}
		} else if ims := req.Header.Get("If-Modified-Since"); ims != "" && version == 2 && ims == lmOf[2] {
			return Render(&RespSpec{Status: 304, ETag: etag, CC: []string{c.StoredCC}}, uc.Enter, uc.Serial)
		} else if ims != "" && version == 1 && ims == lmOf[1] {
			return Render(&RespSpec{Status: 304, ETag: etag, CC: []string{c.StoredCC}}, uc.Enter, uc.Serial)
		}
		rs := RespSpec{Status: 200, CC: []string{c.StoredCC}, BodySize: 20, Extra: map[string][]string{"X-Version": {fmt.Sprint(version)}}}
		// what the origin reveals of its validators (v2 always shows both: the client's copy has them)
		if version == 2 || c.Validators == "etag" || c.Validators == "both" {
			rs.ETag = etag
		}
		if version == 2 || c.Validators == "lm" || c.Validators == "both" {
			rs.LastMod = fmt.Sprintf("-%d", 1000*(3-version))
		}
		rep := Render(&rs, uc.Enter, uc.Serial)
		if lm := rep.Header.Get("Last-Modified"); lm != "" {
			lmOf[version] = lm
		}
		return rep
	}})
	defer w.Close()
	const url = "http://a.example/cc"
	first := w.Do(sim.ReqSpec{URL: url})
	v1Body := first.BodySerial()
	if v1Body == "" {
		r.Inconclusive("store phase failed: " + first.Summary())
		return
	}
	if lmOf[1] == "" {
		lmOf[1] = time.Now().Add(-2000 * time.Second).UTC().Format(http.TimeFormat)
	}
	time.Sleep(sec(c.ElapsedS))
	version = 2
	// the client obtains v2 for itself, bypassing the store
	own := w.Do(sim.ReqSpec{URL: url, Header: map[string][]string{"Cache-Control": {"no-store"}}})
	if own.Header == nil || own.Header.Get("X-Version") != "2" {
		r.Inconclusive("client could not fetch v2: " + own.Summary())
		return
	}
	h := map[string][]string{}
	set := func(k, v string) { h[k] = []string{v} }
	switch c.Client {
	case "inm-v2":
		set("If-None-Match", `"v2"`)
	case "inm-v1":
		set("If-None-Match", `"v1"`)
	case "inm-other":
		set("If-None-Match", `"zzz"`)
	case "inm-star":
		set("If-None-Match", "*")
	case "ims-v2":
		set("If-Modified-Since", lmOf[2])
	case "ims-v1":
		set("If-Modified-Since", lmOf[1])
	case "inm-v2+ims-v2":
		set("If-None-Match", `"v2"`)
		set("If-Modified-Since", lmOf[2])
	case "inm-other+ims-v2":
		set("If-None-Match", `"zzz"`)
		set("If-Modified-Since", lmOf[2])
	}
	if c.ReqCC != "" {
		set("Cache-Control", c.ReqCC)
	}
	sig := fmt.Sprintf("stored=%s,validators=%s,client=%s,req=%s", c.StoredCC, c.Validators, c.Client, c.ReqCC)
	judge := func(ex *sim.Exchange, label string) {
		r.AddEvaluations(1)
		in := mon.Classify(w, ex)
		vs, _ := mon.C02(in)
		for _, v := range vs {
			r.Violation(v.Clause, v.Sig+","+label, v.Msg, exSummaries(w))
		}
		for _, v := range mon.C10Basic(in) {
			r.CrossObs("C10:"+v.Clause, 1)
		}
		if ex.Header == nil {
			return
		}
		// the origin holds v2: once it was contacted in an exchange, v1's body may
		// come back only if a 304 obtained with v1's own validators said so -
		// which cannot happen, because v1's validators no longer match
		contacted := len(ex.FgCalls()) > 0
		if contacted && ex.Status != 304 && ex.BodySerial() == v1Body {
			r.Violation("old-body-after-origin-contact", sig+","+label, fmt.Sprintf("the origin holds v2 and was contacted in this exchange, yet the stored v1 body came back (ETag %q); %s", ex.Header.Get("Etag"), ex.Summary()), exSummaries(w))
		}
		if ex.Status != 304 && ex.BodySerial() == v1Body && ex.Header.Get("Etag") == `"v2"` {
			r.Violation("spliced-entry", sig+","+label, "v1's body is served with v2's ETag; "+ex.Summary(), exSummaries(w))
		}
	}
	ex := w.Do(sim.ReqSpec{URL: url, Header: h})
	w.Settle(ex, 2*time.Second)
	judge(ex, "conditional-request")
	// afterwards: plain requests, then a forced revalidation
	judge(w.Do(sim.ReqSpec{URL: url}), "plain-after")
	fin := w.Do(sim.ReqSpec{URL: url, Header: map[string][]string{"Cache-Control": {"no-cache"}}})
	w.Settle(fin, 2*time.Second)
	judge(fin, "reload-after")
	r.Nontrivial(fmt.Sprintf("%+v", c))
	if r.WantSample() {
		r.Sample(map[string]any{"case": c, "history": exSummaries(w)})
	}
}
