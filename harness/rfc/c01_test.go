package rfc

import (
	"net/http"
	"strconv"
	"testing"
	"time"

	"verif/harness/mon"
	"verif/harness/run"
	"verif/harness/sim"
)

var (
	c01MaxAge = []string{"", "0", "1", "10", "abc", "-5", "2147483648", "9223372036854775807", "9223372036854775808", "1180591620717411303424",
		"0, max-age=3600", "10, MAX-AGE=100000"} // (repeated: the first occurrence counts, or the response is stale)
	c01Expires = []string{"", "-1", "+0", "+10", "raw:0", "raw:garbage", "raw:"}                      // ("raw:" = present but empty)
	c01LastMod = []string{"", "-100", "-864000", "+0", "+100", "raw:garbage", "-105", "-5"}           // (10 % of 105 s and of 5 s are no whole seconds)
	c01Age     = []string{"", "0", "5", "-5", "abc", "2147483648", "100000000000000000000", "90, 95"} // (list-based: the first member counts)
	c01Date    = []string{"", "-3600", "+3600", "absent", "raw:garbage"}
	c01Status  = []string{"200", "203", "301", "404", "302public", "302"}
	c01Delay   = []float64{0, 2, 30}
	c01Req     = []string{"", "max-age=5", "min-fresh=5", "max-stale", "max-stale=5", "max-age=0", "max-age=100000, min-fresh=1"}
)

type c01Case struct {
	Cfg   int      `json:"cfg"`
	Spec  RespSpec `json:"spec"`
	Times []int64  `json:"elapsed_s"`
	SubMs int      `json:"sub_ms"`
}

func c01Decode(cfg int) c01Case {
	c := c01Case{Cfg: cfg}
	take := func(n int) int { v := cfg % n; cfg /= n; return v }
	ma := c01MaxAge[take(len(c01MaxAge))]
	ex := c01Expires[take(len(c01Expires))]
	lm := c01LastMod[take(len(c01LastMod))]
	ag := c01Age[take(len(c01Age))]
	dt := c01Date[take(len(c01Date))]
	st := c01Status[take(len(c01Status))]
	dl := c01Delay[take(len(c01Delay))]
	rs := RespSpec{Status: 200, Expires: ex, LastMod: lm, Date: dt, DelayS: dl, BodySize: 16}
	var cc []string
	if ma != "" {
		cc = append(cc, "max-age="+ma)
	}
	if st == "302public" {
		rs.Status = 302
		cc = append(cc, "public")
	} else {
		rs.Status, _ = strconv.Atoi(st)
	}
	if len(cc) > 0 {
		rs.CC = []string{joinComma(cc)}
	}
	if ag != "" {
		rs.Age = []string{ag}
	}
	c.Spec = rs
	// candidate lifetimes and initial ages -> boundary times
	var ls []int64
	if n, err := strconv.ParseInt(ma, 10, 64); err == nil && n > 0 && n < 1e6 {
		ls = append(ls, n)
	}
	if ex == "+10" {
		ls = append(ls, 10)
	}
	if ma == "10, MAX-AGE=100000" {
		ls = append(ls, 10)
	}
	switch lm {
	case "-100", "-105":
		ls = append(ls, 10)
	case "-864000":
		ls = append(ls, 86400)
	}
	ages := []int64{0, int64(dl)}
	if ag == "5" {
		ages = append(ages, 5+int64(dl))
	}
	if dt == "-3600" {
		ages = append(ages, 3600+int64(dl))
	}
	set := map[int64]bool{0: true, 1: true, 3600: true, 365 * 86400: true, 60 * 365 * 86400: true}
	if ag != "" && ag != "0" || ma != "" && len(ma) > 4 {
		// sums of huge terms: a clamped Age or lifetime plus a resident time of centuries
		set[150*365*86400] = true
		set[250*365*86400] = true // the bubble's clock must stay below 2262
	}
	for _, l := range ls {
		for _, a := range ages {
			for _, d := range []int64{-1, 0, 1} {
				if x := l - a + d; x >= 0 {
					set[x] = true
				}
			}
		}
		set[2*l] = true
	}
	for x := range set {
		c.Times = append(c.Times, x)
	}
	sortInt64(c.Times)
	return c
}

func joinComma(a []string) string {
	out := ""
	for i, s := range a {
		if i > 0 {
			out += ", "
		}
		out += s
	}
	return out
}

func c01GridSize() int {
	return len(c01MaxAge) * len(c01Expires) * len(c01LastMod) * len(c01Age) * len(c01Date) * len(c01Status) * len(c01Delay)
}

// TestC01Grid: store one response per grid point, then look it up at every
// boundary time with every request variant, undoing each lookup's writes.
func TestC01Grid(t *testing.T) {
	r := run.Start(t, "C01", "grid")
	defer r.Finish()
	total := c01GridSize()
	n := total
	if !r.Thorough() {
		n = r.Tiered(total/100, total)
	}
	r.SetExhaustive(r.Thorough())
	for i := 0; i < n; i++ {
		if !r.Mine(i) {
			continue
		}
		cfg := i
		sub := 0
		if !r.Thorough() {
			rng := r.Rand(i)
			cfg = rng.IntN(total)
			if rng.IntN(5) == 0 {
				sub = []int{300, 999}[rng.IntN(2)]
			}
		} else if i%7 == 3 {
			sub = []int{300, 999}[(i/7)%2]
		}
		c := c01Decode(cfg)
		c.SubMs = sub
		r.Begin(i, c)
		if fail := r.Bubble(func() { c01RunGrid(r, c) }); fail != "" {
			r.Violation("bubble", "bubble-failure", "bubble failed: "+fail, nil)
		}
	}
	// pinned points, in every tier: heuristic lifetimes that are no whole
	// seconds at sub-second offsets, repeated and unreadable max-age next to
	// Expires / Last-Modified
	for k, pc := range c01Pinned() {
		i := n + k
		if !r.Mine(i) {
			continue
		}
		r.Begin(i, pc)
		if fail := r.Bubble(func() { c01RunGrid(r, pc) }); fail != "" {
			r.Violation("bubble", "bubble-failure", "bubble failed: "+fail, nil)
		}
	}
	r.Done()
}

func c01Pinned() []c01Case {
	var out []c01Case
	idx := func(xs []string, v string) int {
		for i, x := range xs {
			if x == v {
				return i
			}
		}
		panic("c01Pinned: " + v)
	}
	enc := func(ma, ex, lm, ag, dt, st string, dl int) int {
		dims := []int{idx(c01MaxAge, ma), idx(c01Expires, ex), idx(c01LastMod, lm), idx(c01Age, ag), idx(c01Date, dt), idx(c01Status, st), dl}
		sizes := []int{len(c01MaxAge), len(c01Expires), len(c01LastMod), len(c01Age), len(c01Date), len(c01Status), len(c01Delay)}
		cfg, mul := 0, 1
		for i := range dims {
			cfg += dims[i] * mul
			mul *= sizes[i]
		}
		return cfg
	}
	for _, lm := range []string{"-105", "-5", "-100"} {
		for _, st := range []string{"200", "404", "302public"} {
			for _, sub := range []int{0, 300, 999} {
				c := c01Decode(enc("", "", lm, "", "", st, 0))
				c.SubMs = sub
				out = append(out, c)
			}
		}
	}
	// a list-based Age next to a lifetime it exceeds; an empty Expires next to
	// an old Last-Modified
	out = append(out, c01Decode(enc("10", "", "", "90, 95", "", "200", 0)), c01Decode(enc("", "+10", "", "90, 95", "", "200", 0)),
		c01Decode(enc("", "raw:", "-864000", "", "", "200", 0)), c01Decode(enc("", "raw:", "-864000", "", "", "404", 0)))
	for _, ma := range []string{"0, max-age=3600", "10, MAX-AGE=100000", "abc", "-5"} {
		for _, ex := range []string{"", "+10"} {
			for _, lm := range []string{"", "-864000"} {
				out = append(out, c01Decode(enc(ma, ex, lm, "", "", "200", 0)))
			}
		}
	}
	return out
}

func c01RunGrid(r *run.Runner, c c01Case) {
	mc := sim.NewMapConn()
	phase := 0
	w := sim.NewWorld(sim.WorldOpt{Inner: mc, Handler: func(uc *sim.UpCall, req *http.Request) *sim.Reply {
		if phase == 0 {
			return Render(&c.Spec, uc.Enter, uc.Serial)
		}
		return Render(&RespSpec{Status: 200, CC: []string{"max-age=1000000"}, BodySize: 8}, uc.Enter, uc.Serial)
	}})
	defer w.Close()
	if c.SubMs > 0 {
		time.Sleep(time.Duration(c.SubMs) * time.Millisecond)
	}
	first := w.Do(sim.ReqSpec{URL: "http://a.example/r"})
	phase = 1
	if first.Panic != "" {
		return
	}
	snap := mc.Snapshot()
	if len(snap) == 0 {
		r.Count("not_stored", 1)
		return
	}
	stored := first.TReturn
	for _, el := range c.Times {
		target := stored.Add(sec(el))
		if d := time.Until(target); d > 0 {
			time.Sleep(d)
		}
		for ri, rq := range c01Req {
			spec := sim.ReqSpec{URL: "http://a.example/r"}
			if rq != "" {
				spec.Header = map[string][]string{"Cache-Control": {rq}}
			}
			ex := w.Do(spec)
			r.AddEvaluations(1)
			in := mon.Classify(w, ex)
			vs, ante, perm := mon.C01(in)
			if ante {
				r.Count("served_from_store_no_contact", 1)
				r.Count("served:"+perm, 1)
				r.Count("served_lifetime_source:"+in.Life.Note, 1)
				r.Nontrivial(f("%d/%d/%s", c.Cfg, ri, perm))
				if perm == "fresh" && in.Life.High < 1<<40 {
					m := in.Life.High - in.Age.Low
					r.Count("fresh_margin:"+marginBucket(m), 1)
				}
			} else if in.FromStore && !in.Known {
				r.Count("skipped_ambiguous_date", 1)
			} else if !in.FromStore {
				r.Count("not_served_from_store", 1)
			}
			for _, v := range vs {
				r.Violation(v.Clause, v.Sig, v.Msg, exSummaries(w)[max(0, len(w.Exchanges)-2):])
			}
			for _, v := range mon.C10Basic(in) {
				r.CrossObs("C10:"+v.Clause, 1)
			}
			if v2, _ := mon.C02(in); len(v2) > 0 {
				r.CrossObs("C02", len(v2))
			}
			if v11, _ := mon.C11(in); len(v11) > 0 {
				r.CrossObs("C11", len(v11))
			}
			if r.WantSample() && ante && el > 0 {
				r.Sample(map[string]any{"stored": c.Spec, "elapsed_s": el, "request_cc": rq, "result": ex.Summary(), "oracle": f("age [%v,%v] lifetime [%v,%v] %s", in.Age.Low, in.Age.High, in.Life.Low, in.Life.High, in.Life.Note), "permission": perm})
			}
			mc.Restore(snap)
			// keep the exchange log short
			if len(w.Exchanges) > 1 {
				w.Exchanges = w.Exchanges[:1]
			}
		}
	}
}

func marginBucket(d time.Duration) string {
	switch {
	case d <= time.Second:
		return "<=1s"
	case d <= 10*time.Second:
		return "<=10s"
	case d <= time.Hour:
		return "<=1h"
	default:
		return ">1h"
	}
}
