package rfc

import (
	"fmt"
	"net/http"
	"strconv"
	"strings"
	"testing"
	"time"

	"verif/harness/run"
	"verif/harness/sim"
)

type c13Case struct {
	Placement string `json:"placement"` // stored | request | both | neither | error-reply-only
	N         int64  `json:"n"`
	N2        int64  `json:"n2,omitempty"` // request's value when placement=both
	StaleS    int64  `json:"staleness_s"`
	Failure   string `json:"failure"` // "err" | status code
	Exclude   string `json:"exclude"` // "" | must-revalidate | no-cache | no-cache-fields | req-no-cache | req-max-age0
	ReqExtra  string `json:"req_extra,omitempty"`
	NText     string `json:"n_text,omitempty"` // the directive's argument as sent, when it is too large for N
}

func c13Cases(thorough bool) []c13Case {
	var out []c13Case
	placements := []string{"stored", "request", "both", "neither", "error-reply-only"}
	ns := []int64{0, 1, 10, 3600, 2147483648}
	fails := []string{"err", "500", "502", "503", "504"}
	excl := []string{"", "", "", "must-revalidate", "no-cache", "req-no-cache", "no-cache-fields", "req-max-age0"}
	for _, pl := range placements {
		for _, n := range ns {
			for _, ds := range []int64{-2, -1, 1, 2, 100000} {
				s := n + ds
				if ds == 100000 {
					s = n + 100000
				}
				if s < 0 {
					continue
				}
				for _, f := range fails {
					for _, e := range excl {
						c := c13Case{Placement: pl, N: n, StaleS: s, Failure: f, Exclude: e}
						if pl == "both" {
							c.N2 = ns[(int(n)+len(f))%len(ns)]
						}
						out = append(out, c)
					}
				}
			}
		}
	}
	// windows too large to represent: they act as (at least) 2^31 s, so any
	// reachable staleness is inside them
	for _, txt := range []string{"9223372036", "9223372037", "18446744073709551616", "99999999999999999999999"} {
		for _, pl := range []string{"stored", "request", "both"} {
			for _, f := range fails {
				for _, st := range []int64{5, 100000} {
					for _, e := range []string{"", "must-revalidate"} {
						out = append(out, c13Case{Placement: pl, N: 1 << 40, N2: 1 << 40, NText: txt, StaleS: st, Failure: f, Exclude: e})
					}
				}
			}
		}
	}
	// status sweep 400-599 with the directive on the stored response, inside the window
	for st := 400; st <= 599; st++ {
		out = append(out, c13Case{Placement: "stored", N: 3600, StaleS: 10, Failure: strconv.Itoa(st)})
		if thorough {
			out = append(out, c13Case{Placement: "request", N: 3600, StaleS: 10, Failure: strconv.Itoa(st)})
			out = append(out, c13Case{Placement: "both", N: 10, N2: 3600, StaleS: 100, Failure: strconv.Itoa(st)})
		}
	}
	return out
}

func c13N(c c13Case, n int64) string {
	if c.NText != "" {
		return c.NText
	}
	return itoa(n)
}

func TestC13(t *testing.T) {
	r := run.Start(t, "C13", "scenario")
	defer r.Finish()
	cases := c13Cases(r.Thorough())
	r.SetExhaustive(true)
	for i, c := range cases {
		if !r.Thorough() {
			// quick: a seeded ~40 % sample plus the whole status sweep and the unrepresentable windows
			rng := r.Rand(i)
			if c.Failure == "err" || len(c.Failure) == 3 && (c.Failure[0] == '5' && (c.Failure == "500" || c.Failure == "502" || c.Failure == "503" || c.Failure == "504")) {
				if rng.IntN(100) >= 40 && c.NText == "" {
					continue
				}
			}
		}
		if !r.Mine(i) {
			continue
		}
		r.Begin(i, c)
		if fail := r.Bubble(func() { c13Run(r, c) }); fail != "" {
			r.Violation("bubble", "bubble-failure", "bubble failed: "+fail, c)
		}
	}
	r.Done()
}

func c13Run(r *run.Runner, c c13Case) {
	const L = 10
	storedCC := "max-age=" + itoa(L)
	if c.Placement == "stored" || c.Placement == "both" {
		storedCC += ", stale-if-error=" + c13N(c, c.N)
	}
	switch c.Exclude {
	case "must-revalidate":
		storedCC += ", must-revalidate"
	case "no-cache":
		storedCC += ", no-cache"
	case "no-cache-fields":
		storedCC += `, no-cache="X-Extra"`
	}
	phase := 0
	w := sim.NewWorld(sim.WorldOpt{Handler: func(uc *sim.UpCall, req *http.Request) *sim.Reply {
		if phase == 0 {
			cc := []string{storedCC}
			if parts := strings.SplitN(storedCC, ", ", 2); len(parts) == 2 && (c.StaleS+c.N)%2 == 1 {
				cc = []string{parts[0], strings.ToUpper(parts[1][:1]) + parts[1][1:]} // two field lines, mixed case
			}
			return Render(&RespSpec{Status: 200, CC: cc, ETag: `"s"`, BodySize: 10, Extra: map[string][]string{"X-Extra": {"1"}}}, uc.Enter, uc.Serial)
		}
		// the failure takes a while to arrive for some cases: Age is the age at hand-over
		delay := float64((c.StaleS + c.N) % 3 * 2)
		if c.Failure == "err" {
			return Render(&RespSpec{Err: true, DelayS: delay}, uc.Enter, uc.Serial)
		}
		st, _ := strconv.Atoi(c.Failure)
		rs := RespSpec{Status: st, BodySize: 5, DelayS: delay}
		if c.Placement == "error-reply-only" {
			rs.CC = []string{"stale-if-error=" + itoa(c.N)}
		}
		return Render(&rs, uc.Enter, uc.Serial)
	}})
	defer w.Close()
	first := w.Do(sim.ReqSpec{URL: "http://a.example/c13"})
	if first.BodySerial() != "0.0" {
		r.Inconclusive("store phase failed: " + first.Summary())
		return
	}
	phase = 1
	time.Sleep(sec(L + c.StaleS))
	var reqCC []string
	reqN := c.N
	if c.Placement == "both" {
		reqN = c.N2
	}
	if c.Placement == "request" || c.Placement == "both" {
		reqCC = append(reqCC, "stale-if-error="+c13N(c, reqN))
	}
	if c.Exclude == "req-no-cache" {
		reqCC = append(reqCC, "no-cache")
	}
	if c.Exclude == "req-max-age0" {
		reqCC = append(reqCC, "max-age=0")
	}
	if len(reqCC) > 1 && (c.StaleS+c.N)%2 == 0 {
		reqCC = []string{reqCC[0] + ",, " + reqCC[1]} // an empty list element
	}
	spec := sim.ReqSpec{URL: "http://a.example/c13"}
	if len(reqCC) > 0 {
		spec.Header = map[string][]string{"Cache-Control": {joinComma(reqCC)}}
	}
	ex := w.Do(spec)
	r.Nontrivial(fmt.Sprintf("%+v", c))
	// classification
	eligibleFailure := c.Failure == "err" || c.Failure == "500" || c.Failure == "502" || c.Failure == "503" || c.Failure == "504"
	window := int64(-1) // largest N among carriers
	if c.Placement == "stored" || c.Placement == "both" {
		window = max(window, c.N)
	}
	if c.Placement == "request" {
		window = max(window, c.N)
	}
	if c.Placement == "both" {
		window = max(window, c.N2)
	}
	excluded := c.Exclude == "must-revalidate" || c.Exclude == "no-cache" || c.Exclude == "req-no-cache"
	failDelay := (c.StaleS + c.N) % 3 * 2 // seconds the failure takes to arrive; staleness may be taken at either end
	mustServe := eligibleFailure && !excluded && window >= 0 && c.StaleS+failDelay <= window-1
	mustNot := !eligibleFailure || excluded || window < 0 || c.StaleS >= window+1
	if c.Exclude == "req-max-age0" {
		// the request's max-age=0 makes the lifetime zero: staleness is the full
		// age. Inside the window both outcomes are defensible (C02 vs C13) -
		// outside it the stored response must not come back.
		mustServe = false
		mustNot = !eligibleFailure || window < 0 || L+c.StaleS >= window+1
	}
	sig := fmt.Sprintf("placement=%s,failure=%s,exclude=%s", c.Placement, failClass(c.Failure), c.Exclude)
	obs := exSummaries(w)
	calls := ex.Calls()
	if len(calls) != 1 || !calls[0].Conditional() {
		r.Violation("no-validation-attempt", sig, "expected exactly one conditional origin call for a stale stored response; "+ex.Summary(), obs)
		return
	}
	servedStored := ex.Header != nil && ex.BodySerial() == "0.0"
	switch {
	case mustServe:
		r.Count("must_serve_cases", 1)
		switch {
		case !servedStored:
			r.Violation("stale-if-error-not-applied", sig, fmt.Sprintf("origin failure (%s) inside the stale-if-error window (staleness %ds, window %ds) but the stored response was not returned; %s", c.Failure, c.StaleS, window, ex.Summary()), obs)
		case ex.CacheStatus() != "STALE":
			r.Violation("not-marked-stale", sig, "stored response returned under stale-if-error is not marked STALE; "+ex.Summary(), obs)
		default:
			got, err := strconv.ParseInt(ex.Header.Get("Age"), 10, 64)
			want := int64(L+c.StaleS) + (c.StaleS+c.N)%3*2
			if err != nil || got < want-1 || got > want+1 {
				r.Violation("age-wrong", sig, fmt.Sprintf("Age %q, expected about %d; %s", ex.Header.Get("Age"), want, ex.Summary()), obs)
			}
			if c.Exclude == "no-cache-fields" && ex.Header.Get("X-Extra") != "" {
				r.Violation("qualified-field-replayed", sig, "field named by no-cache=\"X-Extra\" replayed under stale-if-error; "+ex.Summary(), obs)
			}
		}
	case mustNot:
		r.Count("must_not_serve_cases", 1)
		if servedStored {
			why := "outside the window"
			switch {
			case !eligibleFailure:
				why = "status " + c.Failure + " is not 500/502/503/504"
			case excluded:
				why = c.Exclude + " applies"
			case window < 0:
				why = "no stale-if-error on the stored response or the request (placement " + c.Placement + ")"
			}
			r.Violation("stale-served-on-error", sig+",why="+whyClass(why), fmt.Sprintf("stored response returned on origin failure although %s (staleness %ds, window %ds); %s", why, c.StaleS, window, ex.Summary()), obs)
		} else if c.Failure == "err" {
			if ex.Err == nil {
				r.Violation("error-swallowed", sig, "origin transport error but RoundTrip returned no error and not the stored response; "+ex.Summary(), obs)
			}
		} else if ex.Header == nil || ex.XMsg() != calls[0].Serial || strconv.Itoa(ex.Status) != c.Failure {
			r.Violation("not-origin-reply", sig, "expected the origin's own error reply; "+ex.Summary(), obs)
		}
	default:
		r.Count("boundary_unjudged", 1)
	}
	if r.WantSample() {
		r.Sample(map[string]any{"case": c, "must_serve": mustServe, "history": obs})
	}
}

func failClass(f string) string {
	switch f {
	case "err", "500", "502", "503", "504":
		return f
	}
	if f[0] == '4' {
		return "4xx"
	}
	return "5xx-other"
}

func whyClass(w string) string {
	switch {
	case len(w) > 6 && w[:6] == "status":
		return "status"
	case w == "outside the window":
		return "window"
	case len(w) > 2 && w[:2] == "no":
		return "no-directive"
	}
	return "excluded"
}
