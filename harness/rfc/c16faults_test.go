package rfc

import (
	"fmt"
	"math/rand/v2"
	"testing"

	"verif/harness/mon"
	"verif/harness/run"
	"verif/harness/sim"
)

// TestC16Faults: caller ownership under store faults. Every store operation
// of a history (foreground and background) fails or returns damaged bytes in
// turn; the response objects handed to the caller must not change afterwards
// (header map at return == at quiescence == at the end of the history), the
// body the caller reads only after all background work is still whole, and
// the caller's request object is untouched.
func TestC16Faults(t *testing.T) {
	r := run.Start(t, "C16", "store-faults")
	defer r.Finish()
	bases := c10Bases()
	nRandom := r.Tiered(10, 150)
	for i := 0; i < nRandom; i++ {
		rng := rand.New(rand.NewPCG(uint64(r.Seed), uint64(i)+1677))
		fc := genFuzzCase(rng, "C16")
		if len(fc.Steps) > 12 {
			fc.Steps = fc.Steps[:12]
		}
		bases = append(bases, fc)
	}
	faultNames := []string{"error-before", "error-after", "garbage", "truncated-header", "json-null"}
	idx := 0
	for bi := range bases {
		// all callers read their body late
		for si := range bases[bi].Steps {
			bases[bi].Steps[si].LateBody = true
		}
		n, kinds := c16FaultRun(r, &bases[bi], bi, -1, "", false)
		for j := 0; j < n; j++ {
			for fi, fname := range faultNames {
				var f *c10Fault
				for k := range c10Faults {
					if c10Faults[k].Name == fname {
						f = &c10Faults[k]
					}
				}
				if f == nil || f.Ops != "*" && f.Ops != kinds[j] {
					continue
				}
				if !r.Thorough() && bi >= 21 && (j+fi+bi)%2 != 0 {
					continue
				}
				i := idx
				idx++
				if !r.Mine(i) {
					continue
				}
				r.Begin(i, map[string]any{"base": bi, "fault_at_store_op": j, "op": kinds[j], "fault": fname})
				c16FaultRun(r, &bases[bi], bi, j, fname, true)
				r.Nontrivial(fmt.Sprintf("%d|%d|%s", bi, j, fname))
				r.Count("fault:"+fname, 1)
			}
		}
	}
	r.Done()
}

func c16FaultRun(r *run.Runner, base *FuzzCase, bi, at int, fname string, judge bool) (nops int, kinds []string) {
	bgStruck := 0
	fail := r.Bubble(func() {
		w := runFuzzCaseWith(base, sim.WorldOpt{}, func(w *sim.World) {
			w.Store.Plan = func(seq int, op, key string) *sim.Fault {
				if seq != at {
					return nil
				}
				for _, f := range c10Faults {
					if f.Name == fname && (f.Ops == "*" || f.Ops == op) {
						var orig []byte
						if op == "get" {
							orig, _ = w.Store.Inner.Get(key)
						}
						return f.Make(orig)
					}
				}
				return nil
			}
		}, func(w *sim.World, in *mon.Info, invs []*mon.Invalidation) {
			r.AddEvaluations(1)
			if !judge {
				return
			}
			where := fmt.Sprintf(" [base %d, fault %s at store op %d]", bi, fname, at)
			for _, v := range mon.C16Own(in) {
				r.Violation(v.Clause, v.Sig+",fault="+fname, v.Msg+where, exSummaries(w))
			}
			v2r, _ := mon.C02Request(w, in)
			for _, v := range v2r {
				if v.Clause == "request-mutated" {
					r.Violation(v.Clause, v.Sig+",fault="+fname, v.Msg+where, exSummaries(w))
				}
			}
			struckFg := false
			for _, op := range in.Ex.StoreOps {
				if op.Fault != "" {
					if op.Fg {
						struckFg = true
					} else {
						bgStruck++
					}
				}
			}
			// a whole body: judged unless the fault itself damaged what the foreground read
			if !struckFg {
				v5, _ := mon.C05Body(w, in)
				for _, v := range v5 {
					r.Violation("returned-body-touched", v.Sig+",fault="+fname, "body read by the caller after quiescence: "+v.Msg+where, exSummaries(w))
				}
			}
		})
		if judge {
			for _, v := range finalOwnership(w) {
				r.Violation(v.Clause, v.Sig+",fault="+fname, v.Msg+fmt.Sprintf(" [base %d, fault %s at store op %d]", bi, fname, at), exSummaries(w))
			}
		}
		ops := w.Store.Ops(0)
		nops = len(ops)
		for _, o := range ops {
			kinds = append(kinds, o.Op)
		}
	})
	if judge && bgStruck > 0 {
		r.Count("faults_that_struck_background_work", 1)
	}
	_ = fail
	return
}
