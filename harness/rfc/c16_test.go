package rfc

import (
	"context"
	"fmt"
	"io"
	"math/rand/v2"
	"net/http"
	"os"
	"runtime"
	"strings"
	"sync"
	"testing"
	"time"

	"github.com/bartventer/httpcache"
	"github.com/bartventer/httpcache/store/driver"
	"github.com/bartventer/httpcache/store/memcache"

	"verif/harness/run"
	"verif/harness/sim"
)

// TestC16ModeR: many goroutines on one transport, no shared harness locks, the
// race detector watching. Callers hammer the returned response (header map
// writes, chunked body reads) and reuse their request objects while background
// revalidations run. Logical checks: right resource, right variant, intact body.
func TestC16ModeR(t *testing.T) {
	r := run.Start(t, "C16", "mode-r")
	defer r.Finish()
	n := r.Tiered(10, 200)
	for i := 0; i < n; i++ {
		if !r.Mine(i) {
			continue
		}
		rng := r.Rand(i)
		c := map[string]any{"goroutines": 8 + rng.IntN(25), "requests_each": 50 + rng.IntN(151), "backend": pick(rng, []string{"mem", "mem", "fs"}), "seed": rng.Uint64()}
		r.Begin(i, c)
		if fail := r.Bubble(func() { c16Run(r, c) }); fail != "" {
			r.Violation("hang", "bubble-failure", "the concurrent workload did not finish cleanly: "+firstLine(fail), c)
		}
		runtime.GC()
	}
	r.Done()
}

// c16AESpelling spells "gzip, br" in one of 200 equivalent ways.
func c16AESpelling(lr *rand.Rand) string {
	q := []string{"", ";q=1", ";q=1.0", ";q=1.00", ";q=1.000"}
	sep := []string{",", ", ", " , ", ",  "}
	a, b := "gzip"+q[lr.IntN(5)], "br"+q[lr.IntN(5)]
	if lr.IntN(2) == 0 {
		a, b = b, a
	}
	return a + sep[lr.IntN(4)] + b
}

func c16Run(r *run.Runner, c map[string]any) {
	ng, per, backend, seed := c["goroutines"].(int), c["requests_each"].(int), c["backend"].(string), c["seed"].(uint64)
	var inner driver.Conn = memcache.Open()
	if backend != "mem" {
		dir := scratchDir()
		defer os.RemoveAll(dir)
		var err error
		if inner, err = openBackend(backend, dir); err != nil {
			r.Inconclusive("backend: " + err.Error())
			return
		}
	}
	epoch0 := time.Now()
	var etagOf sync.Map // body serial -> ETag the origin sent with that body
	origin := &sim.Origin{Jitter: runtime.Gosched}
	origin.Handler = func(uc *sim.UpCall, req *http.Request) *sim.Reply {
		xa := req.Header.Get("X-A")
		res := req.URL.Path + "|" + xa
		if req.Method != "GET" {
			return Render(&RespSpec{Status: 200, BodySize: 3, Extra: map[string][]string{"X-Res": {res}}}, uc.Enter, uc.Serial)
		}
		// content changes every 5 virtual seconds
		etag := fmt.Sprintf(`"%s-%d"`, res, int(time.Since(epoch0)/(5*time.Second)))
		if inm := req.Header.Get("If-None-Match"); inm != "" && inm == etag {
			return Render(&RespSpec{Status: 304, ETag: etag, Vary: []string{"X-A, Accept-Encoding"}, Extra: map[string][]string{"X-Res": {res}}}, uc.Enter, uc.Serial)
		}
		etagOf.Store(uc.Serial, etag) // the validator this body was sent with
		rs := RespSpec{Status: 200, CC: []string{"max-age=1, stale-while-revalidate=3"}, ETag: etag, Vary: []string{"X-A, Accept-Encoding"}, BodySize: 200 + len(res)*7,
			Extra: map[string][]string{"X-Res": {res}}}
		if strings.HasSuffix(req.URL.Path, "1") {
			rs.DelayS = 0.2
		}
		return Render(&rs, uc.Enter, uc.Serial)
	}
	store := sim.NewRecStore(inner)
	store.Silent = true
	store.Jitter = runtime.Gosched
	dsn, release := sim.RegisterConn(store)
	defer release()
	rt := httpcache.NewTransport(dsn, httpcache.WithUpstream(origin))
	type tally struct{ total, fromStore, stale, reval, miss, bypass, errs int }
	tallies := make([]tally, ng)
	var wg sync.WaitGroup
	var vmu sync.Mutex
	var viols []string
	for g := 0; g < ng; g++ {
		wg.Add(1)
		go func(g int) {
			defer wg.Done()
			lr := rand.New(rand.NewPCG(seed, uint64(g)))
			tl := &tallies[g]
			for i := 0; i < per; i++ {
				path := fmt.Sprintf("/u%d", lr.IntN(2))
				xa := []string{"a", "b"}[lr.IntN(2)]
				method := "GET"
				if lr.IntN(20) == 0 {
					method = "POST"
				}
				ex := &sim.Exchange{ID: g*100000 + i}
				req, _ := http.NewRequestWithContext(sim.WithExchange(context.Background(), ex), method, "http://a.example"+path, nil)
				req.Header.Set("X-A", xa)
				// one Accept-Encoding variant in 200 spellings the cache documents as
				// equivalent (member order, q=1 forms, white space): whatever the cache
				// keeps per raw header value is written to from many goroutines at once
				req.Header.Set("Accept-Encoding", c16AESpelling(lr))
				if lr.IntN(20) == 0 {
					req.Header.Set("Cache-Control", "no-cache")
				}
				resp, err := rt.RoundTrip(req)
				tl.total++
				if err != nil || resp == nil {
					tl.errs++
					continue
				}
				// the caller owns the response now: use it without any synchronisation
				want := path + "|" + xa
				got := resp.Header.Get("X-Res")
				st := resp.Header.Get("X-Httpcache-Status")
				gotETag := resp.Header.Get("Etag")
				resp.Header.Set("X-Caller", "mine")
				for k := range resp.Header {
					_ = resp.Header[k]
				}
				resp.Header.Del("Etag")
				buf := make([]byte, 37)
				var body []byte
				var rerr error
				for {
					nn, e := resp.Body.Read(buf)
					body = append(body, buf[:nn]...)
					if e != nil {
						if e != io.EOF {
							rerr = e
						}
						break
					}
					if lr.IntN(4) == 0 {
						runtime.Gosched()
					}
				}
				resp.Body.Close()
				resp.Header.Set("X-Caller", "still-mine")
				bi := sim.ParseBody(body)
				if got != want {
					vmu.Lock()
					viols = append(viols, fmt.Sprintf("wrong-resource|request for %s answered with a response for %s (status header %s)", want, got, st))
					vmu.Unlock()
				}
				if want, ok := etagOf.Load(bi.Serial); ok && method == "GET" && gotETag != "" && gotETag != want.(string) {
					// a 304 only ever confirms the validator it was asked about: the
					// ETag on a response is the one its body was sent with
					vmu.Lock()
					viols = append(viols, fmt.Sprintf("validator-of-another-representation|response for %s carries ETag %s but its body (message %s) was sent with %s (cache status %s)", want0(want), gotETag, bi.Serial, want.(string), st))
					vmu.Unlock()
				}
				if rerr != nil || !bi.Intact {
					vmu.Lock()
					viols = append(viols, fmt.Sprintf("body-damaged|response body damaged (%d bytes, read error %v, cache status %s)", len(body), rerr, st))
					vmu.Unlock()
				}
				switch st {
				case "HIT":
					tl.fromStore++
				case "STALE":
					tl.stale++
				case "REVALIDATED":
					tl.reval++
				case "MISS":
					tl.miss++
				default:
					tl.bypass++
				}
				// the body is closed: the caller may reuse its request object
				req.Header.Set("X-A", "reused")
				req.URL.Path = "/reused"
				if lr.IntN(3) == 0 {
					time.Sleep(time.Duration(lr.IntN(900)) * time.Millisecond)
				}
			}
		}(g)
	}
	wg.Wait()
	time.Sleep(30 * time.Second) // background work finishes (virtual time)
	var sum tally
	for _, tl := range tallies {
		sum.total += tl.total
		sum.fromStore += tl.fromStore
		sum.stale += tl.stale
		sum.reval += tl.reval
		sum.miss += tl.miss
		sum.bypass += tl.bypass
		sum.errs += tl.errs
	}
	r.AddEvaluations(sum.total)
	r.Count("requests", sum.total)
	r.Count("path:HIT", sum.fromStore)
	r.Count("path:STALE(background revalidation)", sum.stale)
	r.Count("path:REVALIDATED", sum.reval)
	r.Count("path:MISS", sum.miss)
	r.Count("path:BYPASS(POST)", sum.bypass)
	r.Count("errors", sum.errs)
	for _, v := range viols {
		parts := strings.SplitN(v, "|", 2)
		r.Violation(parts[0], "mode-r,backend="+backend, parts[1], nil)
	}
	// upstream calls never carry what the caller did to its request after return
	for _, oc := range origin.Orphans() {
		if oc.Header.Get("X-A") == "reused" || strings.Contains(oc.URL, "/reused") {
			r.Violation("upstream-request", "sees-caller-reuse", "an upstream call used the request object after the caller had reused it: "+oc.URL, nil)
		}
	}
	if sum.stale > 0 && sum.fromStore > 0 && sum.miss > 0 {
		r.Nontrivial(fmt.Sprintf("%v", c))
	}
	if r.WantSample() {
		r.Sample(map[string]any{"case": c, "requests": sum.total, "HIT": sum.fromStore, "STALE": sum.stale, "REVALIDATED": sum.reval, "MISS": sum.miss, "BYPASS": sum.bypass, "errors": sum.errs})
	}
}

func want0(v any) string {
	s, _ := v.(string)
	if i := strings.LastIndexByte(s, '-'); i > 1 {
		return s[1:i]
	}
	return s
}
