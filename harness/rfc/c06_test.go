package rfc

import (
	"fmt"
	"net/http"
	"strings"
	"testing"
	"time"

	"verif/harness/mon"
	"verif/harness/run"
	"verif/harness/sim"
)

type c06Row struct {
	Name    string   `json:"name"`
	Method  string   `json:"method,omitempty"`
	ReqCC   string   `json:"req_cc,omitempty"`
	ReqHdr  string   `json:"req_hdr,omitempty"` // "range" | "inm-match" | "inm-other" | "ims"
	RespCC  []string `json:"resp_cc,omitempty"`
	Expires string   `json:"expires,omitempty"`
	LastMod string   `json:"last_mod,omitempty"`
	FailAt  int      `json:"fail_at,omitempty"` // -1 no failure; else body fails after this many bytes (0, 1, mid, last)
	Reval   string   `json:"reval,omitempty"`   // second phase: validate a stored entry with a 304 carrying this Cache-Control
}

func c06Table() []c06Row {
	t := []c06Row{
		{Name: "plain-max-age", RespCC: []string{"max-age=60"}, FailAt: -1},
		{Name: "no-directives", FailAt: -1},
		{Name: "last-modified-only", LastMod: "-1000", FailAt: -1},
		{Name: "expires", Expires: "+60", FailAt: -1},
		{Name: "public", RespCC: []string{"public"}, FailAt: -1},
		{Name: "private", RespCC: []string{"private"}, FailAt: -1},
		{Name: "resp-no-store", RespCC: []string{"no-store"}, FailAt: -1},
		{Name: "resp-no-store+max-age", RespCC: []string{"max-age=60, no-store"}, FailAt: -1},
		{Name: "resp-No-Store", RespCC: []string{"No-Store, max-age=60"}, FailAt: -1},
		{Name: "resp-no-store-2nd-line", RespCC: []string{"max-age=60", "no-store"}, FailAt: -1},
		{Name: "resp-no-store+public", RespCC: []string{"public, no-store"}, FailAt: -1},
		{Name: "req-no-store", ReqCC: "no-store", RespCC: []string{"max-age=60"}, FailAt: -1},
		{Name: "req-No-Store", ReqCC: "NO-STORE", RespCC: []string{"max-age=60"}, FailAt: -1},
		{Name: "req-no-store+max-age", ReqCC: "max-age=10, no-store", RespCC: []string{"max-age=60"}, FailAt: -1},
		{Name: "must-understand", RespCC: []string{"must-understand, max-age=60"}, FailAt: -1},
		{Name: "must-understand+no-store", RespCC: []string{"must-understand, no-store"}, FailAt: -1},
		{Name: "must-understand+public", RespCC: []string{"must-understand, public"}, FailAt: -1},
		{Name: "no-cache", RespCC: []string{"no-cache"}, FailAt: -1},
		{Name: "s-maxage", RespCC: []string{"s-maxage=60"}, FailAt: -1},
		{Name: "range-request", ReqHdr: "range", RespCC: []string{"max-age=60"}, FailAt: -1},
		{Name: "client-inm", ReqHdr: "inm-match", RespCC: []string{"max-age=60"}, FailAt: -1},
		{Name: "client-inm-other", ReqHdr: "inm-other", RespCC: []string{"max-age=60"}, FailAt: -1},
		{Name: "client-ims", ReqHdr: "ims", RespCC: []string{"max-age=60"}, FailAt: -1},
		{Name: "body-fail-0", RespCC: []string{"max-age=60"}, FailAt: 0},
		{Name: "body-fail-1", RespCC: []string{"max-age=60"}, FailAt: 1},
		{Name: "body-fail-mid", RespCC: []string{"max-age=60"}, FailAt: 20},
		{Name: "body-fail-last", RespCC: []string{"max-age=60"}, FailAt: 1 << 20},
		{Name: "reval-304-no-store", RespCC: []string{"max-age=1"}, FailAt: -1, Reval: "no-store"},
		{Name: "reval-304-No-Store", RespCC: []string{"max-age=1"}, FailAt: -1, Reval: "max-age=60, No-Store"},
		{Name: "reval-304-plain", RespCC: []string{"max-age=1"}, FailAt: -1, Reval: "max-age=60"},
		{Name: "reval-req-no-store", ReqCC: "no-store", RespCC: []string{"max-age=1"}, FailAt: -1, Reval: "max-age=60"},
	}
	for _, m := range []string{"HEAD", "POST", "PUT", "DELETE", "PATCH", "OPTIONS", "PROPFIND", "FOO", "TRACE"} {
		t = append(t, c06Row{Name: "method-" + m, Method: m, RespCC: []string{"max-age=60"}, FailAt: -1})
	}
	return t
}

type c06Case struct {
	Status int    `json:"status"`
	Row    c06Row `json:"row"`
	UVary  bool   `json:"unique_vary"` // Vary: X-A, X-U<m> so that index records name the message
}

// TestC06Sweep: status 100-599 x directive/method table; every write the
// store receives is scanned; two plain GETs follow to see whether anything is
// later served.
func TestC06Sweep(t *testing.T) {
	r := run.Start(t, "C06", "sweep")
	defer r.Finish()
	table := c06Table()
	r.SetExhaustive(r.Thorough())
	idx := 0
	for st := 100; st <= 599; st++ {
		for ri, row := range table {
			i := idx
			idx++
			if !r.Thorough() && r.Rand(i).IntN(10) != 0 && !(st == 200 || st == 304 || st == 206) {
				continue
			}
			if !r.Mine(i) {
				continue
			}
			if st < 200 && st != 199 && st != 102 && st != 150 {
				// net/http-level 1xx handling does not apply to a RoundTripper result; a few are enough
				if st%10 != 0 {
					continue
				}
			}
			c := c06Case{Status: st, Row: row, UVary: (st+ri)%3 == 0}
			r.Begin(i, c)
			if fail := r.Bubble(func() { c06Run(r, c) }); fail != "" {
				r.Violation("bubble", "bubble-failure", "bubble failed: "+fail, c)
			}
		}
	}
	r.Done()
}

func c06Run(r *run.Runner, c c06Case) {
	row := c.Row
	phase := 0
	w := sim.NewWorld(sim.WorldOpt{Handler: func(uc *sim.UpCall, req *http.Request) *sim.Reply {
		if row.Reval != "" {
			// phase 0 stores a 200; later conditional requests get a 304 with the given Cache-Control
			if uc.Conditional() && phase == 1 {
				return Render(&RespSpec{Status: 304, ETag: `"e"`, CC: []string{row.Reval}}, uc.Enter, uc.Serial)
			}
			return Render(&RespSpec{Status: 200, CC: row.RespCC, ETag: `"e"`, BodySize: 30}, uc.Enter, uc.Serial)
		}
		rs := RespSpec{Status: c.Status, CC: row.RespCC, Expires: row.Expires, LastMod: row.LastMod, ETag: `"e"`, BodySize: 40}
		if row.FailAt >= 0 {
			rs.FailBody, rs.FailAt = true, row.FailAt
		}
		if c.UVary {
			rs.Vary = []string{"X-A, X-U" + strings.ReplaceAll(uc.Serial, ".", "-")}
		}
		if req.Method == "HEAD" {
			rs.NoBody = true
		}
		return Render(&rs, uc.Enter, uc.Serial)
	}})
	defer w.Close()
	spec := sim.ReqSpec{URL: "http://a.example/c06", Method: row.Method, Header: map[string][]string{}}
	if row.ReqCC != "" {
		spec.Header["Cache-Control"] = []string{row.ReqCC}
	}
	switch row.ReqHdr {
	case "range":
		spec.Header["Range"] = []string{"bytes=0-3"}
	case "inm-match":
		spec.Header["If-None-Match"] = []string{`"e"`}
	case "inm-other":
		spec.Header["If-None-Match"] = []string{`"zzz"`}
	case "ims":
		spec.Header["If-Modified-Since"] = []string{"Sat, 01 Jan 2000 00:00:00 GMT"}
	}
	sig := func(v mon.V) string {
		return v.Sig + ",row=" + rowClass(row.Name) + fmt.Sprintf(",status=%dxx", c.Status/100)
	}
	nWrites := 0
	visit := func(ex *sim.Exchange) {
		r.AddEvaluations(1)
		in := mon.Classify(w, ex)
		vs, n := mon.C06(w, in)
		nWrites += n
		for _, v := range vs {
			r.Violation(v.Clause, sig(v), v.Msg, exSummaries(w))
		}
		for _, v := range mon.C10Basic(in) {
			r.CrossObs("C10:"+v.Clause, 1)
		}
	}
	if row.Reval != "" {
		if c.Status != 200 && c.Status != 304 && c.Status != 206 {
			return // the revalidation rows do not depend on the swept status
		}
		// store with a plain request, wait until stale, then validate with the row's request
		plain := sim.ReqSpec{URL: "http://a.example/c06"}
		visit(w.Do(plain))
		time.Sleep(5 * time.Second)
		phase = 1
		visit(w.Do(spec))
		visit(w.Do(plain))
		r.Nontrivial(fmt.Sprintf("reval|%s", row.Name))
		return
	}
	first := w.Do(spec)
	visit(first)
	// the origin's reply for the swept case is message 0.0; must it stay out of the store?
	var why string
	if c0 := w.Call("0.0"); c0 != nil {
		why = mon.MustNotStore(c0)
	}
	if why != "" {
		r.Count("must_not_store:"+why, 1)
		r.Nontrivial(fmt.Sprintf("%d|%s|%v", c.Status, row.Name, c.UVary))
	} else {
		r.Count("storable_or_debatable", 1)
	}
	// two plain GETs: is anything of it later served?
	for k := 0; k < 2; k++ {
		ex := w.Do(sim.ReqSpec{URL: "http://a.example/c06"})
		visit(ex)
		if why != "" && ex.Header != nil && (ex.BodySerial() == "0.0" || ex.XMsg() == "0.0") {
			r.Violation("served-later", why+",row="+rowClass(row.Name), fmt.Sprintf("message 0.0 must not be stored (%s) but a later request was answered with it; %s", why, ex.Summary()), exSummaries(w))
		}
	}
	if r.WantSample() && why != "" && nWrites >= 0 {
		r.Sample(map[string]any{"case": c, "must_not_store": why, "store_writes_seen": nWrites, "history": exSummaries(w)})
	}
}

func rowClass(n string) string {
	if i := strings.IndexByte(n, '-'); i > 0 && strings.HasPrefix(n, "method") {
		return "method"
	}
	return n
}
