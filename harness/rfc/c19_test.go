package rfc

import (
	"encoding/json"
	"fmt"
	"math/rand/v2"
	"net/http"
	"os"
	"strings"
	"testing"
	"time"

	"github.com/bartventer/httpcache/store/driver"

	"verif/harness/run"
	"verif/harness/sim"
)

type c19Case struct {
	U        int      `json:"urls"`
	Combos   []string `json:"header_combos"` // "a|b" = X-A: a, X-B: b ("-" absent, ";" separates field lines)
	Policy   string   `json:"policy"`
	DtS      float64  `json:"dt_s"`
	PostEach int      `json:"post_every,omitempty"`
	Backend  string   `json:"backend"`
}

var c19Policies = []string{"vary-star", "vary-xa-star", "vary-xa", "vary-alternate-ab", "vary-alternate-none", "no-vary", "validate-each-round", "swr-each-round", "vary-star-validate", "status-alternate", "vary-alternate-xa-star", "vary-inm", "vary-by-request", "validate-304-other-vary"}

func genC19(r *rand.Rand) c19Case {
	c := c19Case{U: 1 + r.IntN(3), Policy: pick(r, c19Policies), DtS: pick(r, []float64{0, 1, 2, 5}), Backend: pick(r, []string{"mem", "mem", "mem", "fs"})}
	nh := 1 + r.IntN(4)
	seen := map[string]bool{}
	for len(c.Combos) < nh {
		// "p;q" = two field lines, "p, q" = one line holding a list
		cb := pick(r, []string{"-", "1", "2", "3", "caf\xe9", "\xff\xfe", "p;q", "p, q", "P;q;r", " sp  ace "}) + "|" + pick(r, []string{"-", "1", "2", "m;n"})
		if !seen[cb] {
			seen[cb] = true
			c.Combos = append(c.Combos, cb)
		}
	}
	if chance(r, 0.25) {
		c.PostEach = 3 + r.IntN(5)
	}
	if c.Policy == "vary-by-request" {
		// the reply's Vary depends on who asks: X-A for X-A: 1, a field set that
		// changes with every reply for everybody else; every request is answered
		// by the origin with a full reply (max-age=0, no validator)
		c.Combos = append([]string{"1|-", "2|-"}, c.Combos...)
		seen := map[string]bool{}
		out := c.Combos[:0]
		for _, cb := range c.Combos {
			if !seen[cb] {
				seen[cb] = true
				out = append(out, cb)
			}
		}
		c.Combos = out
	}
	return c
}

// c19Prefix: a third of the alphabets use URIs with percent-encoded non-ASCII octets
func c19Prefix(c c19Case) string {
	switch (c.U + len(c.Combos) + len(c.Policy)) % 3 {
	case 0:
		return "/caf%C3%A9"
	case 1:
		return "/q%E9%FF"
	}
	return ""
}

func c19Vary(policy string, k int) (vary []string, distinct int) {
	switch policy {
	case "vary-star", "vary-star-validate":
		return []string{"*"}, 1
	case "vary-xa-star":
		return []string{"X-A, *"}, 1
	case "vary-xa", "validate-each-round", "swr-each-round", "status-alternate":
		return []string{"X-A"}, 1
	case "vary-alternate-ab":
		return [][]string{{"X-A"}, {"X-B"}}[k%2], 2
	case "vary-alternate-none":
		return [][]string{{"X-A"}, nil}[k%2], 2
	case "vary-alternate-xa-star":
		return [][]string{{"X-A"}, {"*"}}[k%2], 2
	case "vary-inm":
		// varies on a field the cache itself adds to its validation requests
		return []string{"If-None-Match, X-A"}, 1
	case "vary-by-request":
		return nil, 2 // (set per request in the handler)
	case "validate-304-other-vary":
		// full replies nominate two fields on one line; every 304 nominates one
		return []string{"X-A, X-B"}, 2
	}
	return nil, 1
}

func TestC19(t *testing.T) {
	r := run.Start(t, "C19", "footprint")
	defer r.Finish()
	n := r.Tiered(40, 2000)
	for i := 0; i < n; i++ {
		if !r.Mine(i) {
			continue
		}
		c := genC19(r.Rand(i))
		r.Begin(i, c)
		if fail := r.Bubble(func() { c19Run(r, c) }); fail != "" {
			r.Violation("bubble", "bubble-failure", "bubble failed: "+fail, c)
		}
	}
	r.Done()
}

func indexLen(v []byte) int {
	var a []json.RawMessage
	if json.Unmarshal(v, &a) != nil {
		return -1
	}
	return len(a)
}

func c19Run(r *run.Runner, c c19Case) {
	var inner driver.Conn
	if c.Backend != "mem" {
		dir := scratchDir()
		defer os.RemoveAll(dir)
		var err error
		if inner, err = openBackend(c.Backend, dir); err != nil {
			r.Inconclusive("backend: " + err.Error())
			return
		}
	}
	calls := 0
	_, V := c19Vary(c.Policy, 0)
	w := sim.NewWorld(sim.WorldOpt{Inner: inner, Handler: func(uc *sim.UpCall, req *http.Request) *sim.Reply {
		k := calls
		calls++
		if req.Method != "GET" {
			return Render(&RespSpec{Status: 500, BodySize: 2}, uc.Enter, uc.Serial) // unsuccessful: no invalidation
		}
		vary, _ := c19Vary(c.Policy, k)
		rs := RespSpec{Status: 200, CC: []string{"max-age=100000"}, Vary: vary, BodySize: 10, ETag: `"e"`}
		switch c.Policy {
		case "validate-each-round", "vary-star-validate":
			rs.CC = []string{"max-age=1"}
			if uc.Conditional() && k%2 == 0 {
				return Render(&RespSpec{Status: 304, ETag: `"e"`, Vary: vary}, uc.Enter, uc.Serial)
			}
		case "validate-304-other-vary":
			rs.CC = []string{"max-age=1"}
			if uc.Conditional() {
				return Render(&RespSpec{Status: 304, ETag: `"e"`, Vary: []string{"X-A"}}, uc.Enter, uc.Serial)
			}
		case "swr-each-round":
			rs.CC = []string{"max-age=1, stale-while-revalidate=100000"}
			if uc.Conditional() && k%2 == 0 {
				return Render(&RespSpec{Status: 304, ETag: `"e"`, Vary: vary}, uc.Enter, uc.Serial)
			}
		case "vary-inm":
			rs.CC = []string{"max-age=0"}
			rs.ETag = fmt.Sprintf(`"e%d"`, k) // a new validator on every reply
		case "vary-alternate-xa-star":
			rs.CC = []string{"max-age=0"} // every request goes to the origin; the reply's Vary alternates
			rs.ETag = ""
		case "status-alternate":
			rs.CC = []string{"max-age=1"}
			rs.Status = []int{200, 404, 301}[k%3]
		case "vary-by-request":
			rs.CC = []string{"max-age=0"}
			rs.ETag = ""
			if xa := req.Header.Values("X-A"); len(xa) == 1 && xa[0] == "1" {
				rs.Vary = []string{"X-A"}
			} else {
				rs.Vary = []string{fmt.Sprintf("X-F%d", k)}
			}
		}
		return Render(&rs, uc.Enter, uc.Serial)
	}})
	defer w.Close()
	H := len(c.Combos)
	bound := c.U * (1 + H*V)
	R := 4 * c.U * (1 + H*V)
	if R < 16 {
		R = 16
	}
	var foot, bigs []int
	maxIdx := 0
	sig := "policy=" + c.Policy
	check := func(round int) bool {
		w.Settle(nil, 0)
		fp := w.Store.Footprint()
		foot = append(foot, len(fp))
		for k := range fp {
			if !strings.Contains(k, "#") {
				if v, err := w.Store.Inner.Get(k); err == nil {
					if n := indexLen(v); n > maxIdx {
						maxIdx = n
					}
				}
			}
		}
		if len(fp) > bound {
			r.Violation("keys-exceed-bound", sig, fmt.Sprintf("after %d rounds the store holds %d keys, bound U*(1+H*V)=%d (U=%d,H=%d,V=%d); keys: %v", round, len(fp), bound, c.U, H, V, w.Store.FootprintKeys()), c)
			return false
		}
		// the largest stored value: in a steady state (every request of the
		// alphabet has been made round/1 times) it does not keep growing
		big := 0
		for _, n := range fp {
			if n > big {
				big = n
			}
		}
		bigs = append(bigs, big)
		// (growth that goes on at least in proportion to the rounds made - the second
		// interval is twice the first - and is more than counters gaining digits)
		if len(bigs) == 3 && bigs[1]-bigs[0] >= 8 && 2*(bigs[2]-bigs[1]) >= 3*(bigs[1]-bigs[0]) && bigs[2]-bigs[0] >= 48 {
			r.Violation("value-grows", sig, fmt.Sprintf("the largest stored value grew from %d to %d to %d bytes between rounds R/4, R/2 and R=%d of the same requests (every reply of the origin has the same size)", bigs[0], bigs[1], bigs[2], round), c)
			return false
		}
		if maxIdx > H*V {
			r.Violation("index-exceeds-bound", sig, fmt.Sprintf("after %d rounds an index holds %d records, bound H*V=%d", round, maxIdx, H*V), c)
			return false
		}
		return true
	}
	req := 0
	for round := 1; round <= R; round++ {
		for u := 0; u < c.U; u++ {
			for _, cb := range c.Combos {
				h := map[string][]string{}
				parts := strings.Split(cb, "|")
				if parts[0] != "-" {
					h["X-A"] = strings.Split(parts[0], ";")
				}
				if parts[1] != "-" {
					h["X-B"] = strings.Split(parts[1], ";")
				}
				if c.DtS > 0 {
					time.Sleep(time.Duration(c.DtS * float64(time.Second)))
				}
				w.Do(sim.ReqSpec{URL: fmt.Sprintf("http://a.example%s/u%d", c19Prefix(c), u), Header: h})
				r.AddEvaluations(1)
				req++
				if c.PostEach > 0 && req%c.PostEach == 0 {
					w.Do(sim.ReqSpec{URL: fmt.Sprintf("http://a.example%s/u%d", c19Prefix(c), u), Method: "POST"})
				}
				// keep the log short
				if len(w.Exchanges) > 4 {
					w.Exchanges = w.Exchanges[len(w.Exchanges)-2:]
				}
			}
		}
		if round == R/4 || round == R/2 || round == R {
			if !check(round) {
				return
			}
		}
	}
	r.Nontrivial(fmt.Sprintf("%+v", c))
	r.Count("policy:"+c.Policy, 1)
	r.Count("requests", req)
	if r.WantSample() {
		r.Sample(map[string]any{"case": c, "rounds": R, "bound_keys": bound, "footprint_keys_at_R/4_R/2_R": foot, "largest_value_bytes_at_R/4_R/2_R": bigs, "max_index_records": maxIdx, "bound_index": H * V})
	}
}

// TestC19Invalidation: after a successful unsafe request, a store that only
// held entries for the target (and same-origin URIs named by Location) is empty.
func TestC19Invalidation(t *testing.T) {
	r := run.Start(t, "C19", "invalidation")
	defer r.Finish()
	n := r.Tiered(200, 5000)
	for i := 0; i < n; i++ {
		if !r.Mine(i) {
			continue
		}
		rng := r.Rand(i)
		c := map[string]any{
			"variants": 1 + rng.IntN(4), "vary": pick(rng, []string{"X-A", "X-A, X-B", "", "*"}),
			"method": pick(rng, []string{"POST", "PUT", "DELETE", "PATCH", "PROPPATCH", "FOO"}), "status": pick(rng, []int{200, 201, 204, 302}),
			"location": pick(rng, []string{"", "/other", "http://a.example/other", "http://A.EXAMPLE:80/other#x"}), "loc_header": pick(rng, []string{"Location", "Content-Location"}),
			"spelling": rng.IntN(len(fuzzSpellings)), "validated_before": chance(rng, 0.3),
			"external_delete": chance(rng, 0.3), "nonascii": pick(rng, []string{"", "", "/caf%C3%A9", "/q%E9"}),
			// a reload of one variant is answered with another Vary field: the
			// response changes its id, its old entry must not stay behind
			"vary_changed_reload": chance(rng, 0.3),
		}
		r.Begin(i, c)
		fail := r.Bubble(func() {
			w := sim.NewWorld(sim.WorldOpt{Handler: func(uc *sim.UpCall, req *http.Request) *sim.Reply {
				if req.Method != "GET" {
					rs := RespSpec{Status: c["status"].(int), BodySize: 2}
					if c["location"].(string) != "" {
						rs.Extra = map[string][]string{c["loc_header"].(string): {c["location"].(string)}}
					}
					return Render(&rs, uc.Enter, uc.Serial)
				}
				if uc.Conditional() && !strings.Contains(req.Header.Get("Cache-Control"), "no-cache") {
					return Render(&RespSpec{Status: 304, ETag: `"e"`}, uc.Enter, uc.Serial)
				}
				var vary []string
				if v := c["vary"].(string); v != "" {
					vary = []string{v}
				}
				if strings.Contains(req.Header.Get("Cache-Control"), "no-cache") && c["vary"].(string) != "*" {
					vary = []string{"X-C"} // the reload's reply varies on something else
				}
				return Render(&RespSpec{Status: 200, CC: []string{"max-age=10"}, ETag: `"e"`, Vary: vary, BodySize: 5}, uc.Enter, uc.Serial)
			}})
			defer w.Close()
			na := c["nonascii"].(string)
			for v := 0; v < c["variants"].(int); v++ {
				h := map[string][]string{"X-A": {fmt.Sprint(v)}, "X-B": {fmt.Sprint(v % 2)}}
				w.Do(sim.ReqSpec{URL: "http://a.example" + na + "/r1", Header: h})
				if c["location"].(string) != "" {
					w.Do(sim.ReqSpec{URL: "http://a.example/other", Header: h})
				}
			}
			if c["validated_before"].(bool) {
				time.Sleep(20 * time.Second)
				w.Do(sim.ReqSpec{URL: "http://a.example" + na + "/r1", Header: map[string][]string{"X-A": {"0"}, "X-B": {"0"}}})
			}
			if c["vary_changed_reload"].(bool) {
				w.Do(sim.ReqSpec{URL: "http://a.example" + na + "/r1", Header: map[string][]string{"X-A": {"0"}, "X-B": {"0"}, "Cache-Control": {"no-cache"}}})
				// (what the reload replaced is unreachable from now on: it counts
				// against the footprint right away)
				if n := len(w.Store.Footprint()); n > c["variants"].(int)+1+map[bool]int{false: 0, true: c["variants"].(int) + 1}[c["location"].(string) != ""] {
					r.Violation("keys-exceed-bound", "after-vary-changed-reload", fmt.Sprintf("after a reload whose reply changed the Vary field the store holds %d keys for %d variants: %v", n, c["variants"], w.Store.FootprintKeys()), exSummaries(w))
				}
			}
			if c["external_delete"].(bool) {
				// one stored response disappears behind the cache's back (maintenance API, clean-up job)
				for _, k := range w.Store.FootprintKeys() {
					if strings.Contains(k, "/r1") && strings.Contains(k, "#") {
						w.Store.Delete(k)
						break
					}
				}
			}
			before := len(w.Store.Footprint())
			ex := w.Do(sim.ReqSpec{URL: fuzzSpellings[c["spelling"].(int)](na + "/r1"), Method: c["method"].(string)})
			w.Settle(ex, 0)
			fp := w.Store.FootprintKeys()
			r.Count("keys_before_invalidation", before)
			if before > 0 {
				r.Nontrivial(fmt.Sprintf("%v", c))
			}
			if len(fp) > 0 {
				r.Violation("keys-left-after-invalidation", fmt.Sprintf("vary=%q,location=%v", c["vary"], c["location"].(string) != ""), fmt.Sprintf("after a successful %s (%d) the store still holds unreachable keys %v (%d keys before); %s", c["method"], c["status"], fp, before, ex.Summary()), exSummaries(w))
			}
			if r.WantSample() {
				r.Sample(map[string]any{"case": c, "keys_before": before, "keys_after": fp})
			}
		})
		if fail != "" {
			r.Violation("bubble", "bubble-failure", "bubble failed: "+fail, c)
		}
	}
	r.Done()
}
