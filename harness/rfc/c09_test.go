package rfc

import (
	"fmt"
	"math/rand/v2"
	"net/http"
	"net/url"
	"os"
	"path/filepath"
	"runtime"
	"strings"
	"testing"
	"time"

	"github.com/bartventer/httpcache/store/driver"
	"github.com/bartventer/httpcache/store/fscache"

	"verif/harness/oracle"
	"verif/harness/run"
	"verif/harness/sim"
)

const testKeyB64 = "MDEyMzQ1Njc4OWFiY2RlZjAxMjM0NTY3ODlhYmNkZWY=" // 32 bytes

// openBackend opens a backend by name in dir.
func openBackend(name, dir string) (driver.Conn, error) {
	switch name {
	case "fs", "fs-reopen":
		return fscache.Open("c", fscache.WithBaseDir(dir))
	case "fsaes", "fsaes-reopen":
		return fscache.Open("c", fscache.WithBaseDir(dir), fscache.WithEncryption(testKeyB64))
	}
	return nil, nil // memory
}

func scratchDir() string {
	base := os.Getenv("VERIF_SCRATCH")
	if base == "" {
		base = os.TempDir()
	}
	d, err := os.MkdirTemp(base, "fs-")
	if err != nil {
		panic(err)
	}
	return d
}

// URI spelling pairs (equivalent under RFC 3986 §6.2.2-6.2.3)
var c09URIPairs = [][2]string{
	{"http://a.example/p/q", "http://a.example/p/q"},
	{"http://a.example/p/q", "HTTP://A.EXAMPLE/p/q"},
	{"http://a.example/p/q", "http://a.example:80/p/q"},
	{"https://a.example/p/q", "https://a.example:443/p/q"},
	{"http://a.example/p/q", "http://a.example:/p/q"},
	{"http://a.example/~u/q", "http://a.example/%7Eu/q"},
	{"http://a.example/~u/q", "http://a.example/%7eu/q"},
	{"http://a.example/A/q", "http://a.example/%41/q"},
	{"http://a.example/p/q", "http://a.example/p/./q"},
	{"http://a.example/p/q", "http://a.example/p/x/../q"},
	{"http://a.example/p/q", "http://a.example/p/%2e/q"},
	{"http://a.example/p/q", "http://a.example/p/x/%2E%2e/q"},
	{"http://a.example/p/q", "http://a.example/p/x/.%2E/q"},
	{"http://a.example/p/q", "http://a.example/%2e/p/q"},
	{"http://a.example/p/q", "http://a.example/p/x/%2e/../q"},
	{"http://a.example/p/q", "http://a.example/p/x/y/%2E%2E/../q"},
	{"http://[fe80::1%25eth0]/p/q", "HTTP://[FE80::1%25eth0]:80/p/./%71#f"},
	{"http://a.example/p/q", "http://a.example/p/q#frag"},
	{"http://a.example", "http://a.example/"},
	{"http://a.example/p%2Fq?x=%c3%a9", "http://a.example/p%2fq?x=%C3%A9"},
	{"http://a.example/p/q?a=1&b=2", "http://A.example:80/p/q?a=1&b=2"},
	{"http://[::1]:8080/p", "http://[::1]:8080/p#f"},
	{"http://[2001:DB8::1]/p", "http://[2001:db8::1]:80/p"},
	{"http://a.example/" + string(make([]byte, 0)) + "long/" + longSeg(300), "http://A.EXAMPLE/long/" + longSeg(300)},
}

func longSeg(n int) string {
	b := make([]byte, n)
	for i := range b {
		b[i] = byte('a' + i%26)
	}
	return string(b)
}

type c09HeaderPair struct {
	Vary []string
	A, B map[string][]string
	Name string
}

// selecting-header spelling pairs the cache documents as equivalent
var c09HeaderPairs = []c09HeaderPair{
	{Name: "no-vary"},
	{Name: "no-vary-other-headers", A: map[string][]string{"X-A": {"1"}}, B: map[string][]string{"X-A": {"2"}}},
	{Name: "identical", Vary: []string{"X-A"}, A: map[string][]string{"X-A": {"1"}}, B: map[string][]string{"X-A": {"1"}}},
	{Name: "absent", Vary: []string{"X-A"}, A: nil, B: nil},
	{Name: "two-fields", Vary: []string{"X-A, X-B"}, A: map[string][]string{"X-A": {"1"}, "X-B": {"x y"}}, B: map[string][]string{"X-B": {"x y"}, "X-A": {"1"}}},
	{Name: "vary-two-lines", Vary: []string{"X-A", "X-B"}, A: map[string][]string{"X-A": {"1"}, "X-B": {"2"}}, B: map[string][]string{"X-A": {"1"}, "X-B": {"2"}}},
	{Name: "vary-case", Vary: []string{"x-a"}, A: map[string][]string{"X-A": {"1"}}, B: map[string][]string{"x-a": {"1"}}},
	{Name: "ae-order", Vary: []string{"Accept-Encoding"}, A: map[string][]string{"Accept-Encoding": {"gzip, br"}}, B: map[string][]string{"Accept-Encoding": {"br,gzip"}}},
	{Name: "ae-alias", Vary: []string{"Accept-Encoding"}, A: map[string][]string{"Accept-Encoding": {"gzip"}}, B: map[string][]string{"Accept-Encoding": {"x-gzip"}}},
	{Name: "te-order", Vary: []string{"TE"}, A: map[string][]string{"Te": {"trailers, deflate"}}, B: map[string][]string{"Te": {"deflate,trailers"}}},
	{Name: "te-q1", Vary: []string{"TE"}, A: map[string][]string{"Te": {"gzip, deflate"}}, B: map[string][]string{"Te": {"gzip;q=1.0, deflate"}}},
	{Name: "ae-q1", Vary: []string{"Accept-Encoding"}, A: map[string][]string{"Accept-Encoding": {"gzip, br"}}, B: map[string][]string{"Accept-Encoding": {"gzip;q=1.0, br"}}},
	{Name: "al-order-q", Vary: []string{"Accept-Language"}, A: map[string][]string{"Accept-Language": {"en-US, fr;q=0.5"}}, B: map[string][]string{"Accept-Language": {"fr;q=0.5,en-US"}}},
	{Name: "accept-order", Vary: []string{"Accept"}, A: map[string][]string{"Accept": {"text/html, application/json"}}, B: map[string][]string{"Accept": {"application/json,text/html"}}},
	{Name: "ua-case", Vary: []string{"User-Agent"}, A: map[string][]string{"User-Agent": {"Foo/1.0"}}, B: map[string][]string{"User-Agent": {"foo/1.0"}}},
	{Name: "two-lines-vs-one", Vary: []string{"Accept-Encoding"}, A: map[string][]string{"Accept-Encoding": {"gzip", "br"}}, B: map[string][]string{"Accept-Encoding": {"gzip, br"}}},
	{Name: "xa-two-lines-identical", Vary: []string{"X-A"}, A: map[string][]string{"X-A": {"1", "2"}}, B: map[string][]string{"X-A": {"1", "2"}}},
	{Name: "ua-two-lines-identical", Vary: []string{"User-Agent"}, A: map[string][]string{"User-Agent": {"a/1", "b/2"}}, B: map[string][]string{"User-Agent": {"a/1", "b/2"}}},
	{Name: "cookie-two-lines", Vary: []string{"Cookie"}, A: map[string][]string{"Cookie": {"a=1", "b=2"}}, B: map[string][]string{"Cookie": {"a=1", "b=2"}}},
	{Name: "obs-text-value", Vary: []string{"X-A"}, A: map[string][]string{"X-A": {"caf\xe9"}}, B: map[string][]string{"X-A": {"caf\xe9"}}},
	{Name: "obs-text-ua", Vary: []string{"User-Agent"}, A: map[string][]string{"User-Agent": {"App\xff/1"}}, B: map[string][]string{"User-Agent": {"app\xff/1"}}},
	{Name: "name-like-values", Vary: []string{"X-A, X-B"}, A: map[string][]string{"X-A": {"1X-B"}, "X-B": {"2"}}, B: map[string][]string{"X-A": {"1X-B"}, "X-B": {"2"}}},
}

type c09Fresh struct {
	Name     string
	Spec     RespSpec
	Lifetime int64 // seconds (documented lifetime, lower bound)
}

func c09FreshPool() []c09Fresh {
	return []c09Fresh{
		{"max-age=5", RespSpec{CC: []string{"max-age=5"}}, 5},
		{"max-age=60", RespSpec{CC: []string{"max-age=60"}}, 60},
		{"max-age=3600+private", RespSpec{CC: []string{"private, max-age=3600"}}, 3600},
		{"max-age=2^31", RespSpec{CC: []string{"max-age=2147483648"}}, 2147483648},
		{"max-age-huge", RespSpec{CC: []string{"max-age=99999999999999999999"}}, 2147483648},
		{"expires+60", RespSpec{Expires: "+60"}, 60},
		{"expires+60-date-skew", RespSpec{Expires: "+120", Date: "-30"}, 90},
		{"max-age-over-expires", RespSpec{CC: []string{"max-age=60"}, Expires: "-1"}, 60},
		{"heuristic-10s", RespSpec{LastMod: "-100"}, 10},
		{"heuristic-1d", RespSpec{LastMod: "-864000"}, 86400},
		{"public-heuristic", RespSpec{CC: []string{"public"}, LastMod: "-864000"}, 86400},
		{"immutable", RespSpec{CC: []string{"max-age=60, immutable"}}, 60},
		{"swr", RespSpec{CC: []string{"max-age=60, stale-while-revalidate=30"}}, 60},
		{"must-revalidate-fresh", RespSpec{CC: []string{"max-age=60, must-revalidate"}}, 60},
		{"age-10", RespSpec{CC: []string{"max-age=60"}, Age: []string{"10"}}, 50},
		{"delay-3", RespSpec{CC: []string{"max-age=60"}, DelayS: 3}, 57},
		{"etag", RespSpec{CC: []string{"max-age=60"}, ETag: `"x"`, LastMod: "-100"}, 60},
		{"mixed-case-cc", RespSpec{CC: []string{"Max-Age=60"}}, 60},
		{"two-line-cc", RespSpec{CC: []string{"private", "max-age=60"}}, 60},
		{"quoted-cc", RespSpec{CC: []string{`max-age="60"`}}, 60},
	}
}

var c09Statuses = []int{200, 203, 301, 308, 404, 405, 410, 414, 501}
var c09Backends = []string{"mem", "mem", "mem", "mem", "mem", "mem", "fs", "fsaes", "fs-reopen", "fsaes-reopen"}
var c09ReqCC = []string{"", "", "", "max-stale=5", "min-fresh=1", "max-age=100000", "stale-if-error=5", "x-ext=1"}

type c09Case struct {
	Fresh       string  `json:"fresh"`
	Status      int     `json:"status"`
	Backend     string  `json:"backend"`
	URLa        string  `json:"url_a"`
	URLb        string  `json:"url_b"`
	Hdr         string  `json:"hdr_pair"`
	ElapsedS    float64 `json:"elapsed_s"`
	ReqCC       string  `json:"req_cc"`
	Noise       int     `json:"noise"`
	BodySize    int     `json:"body_size"`
	EmptyMethod bool    `json:"empty_method,omitempty"`
	fresh       c09Fresh
	hdr         c09HeaderPair
}

// c09Respell applies a random composition of RFC 3986 6.2.2/6.2.3
// equivalence-preserving transformations to a URI given by its parts.
func c09Respell(r *rand.Rand, scheme, host, port, path, query string) string {
	if chance(r, 0.3) {
		scheme = strings.ToUpper(scheme)
	}
	if chance(r, 0.4) {
		host = strings.ToUpper(host)
	}
	if port == "" {
		switch r.IntN(4) {
		case 0:
			port = map[string]string{"http": ":80", "https": ":443"}[strings.ToLower(scheme)]
		case 1:
			port = ":"
		}
	}
	if chance(r, 0.4) { // escape case
		var b strings.Builder
		for i := 0; i < len(path); i++ {
			if path[i] == '%' && i+2 < len(path) {
				b.WriteString(strings.ToLower(path[i : i+3]))
				i += 2
			} else {
				b.WriteByte(path[i])
			}
		}
		path = b.String()
	}
	if chance(r, 0.4) { // unreserved characters escaped
		path = strings.Replace(path, "~", pick(r, []string{"%7E", "%7e"}), 1)
		path = strings.Replace(path, "q", "%71", 1)
		if query != "" && chance(r, 0.5) {
			query = strings.Replace(query, "v", "%76", 1)
		}
	}
	if chance(r, 0.3) && strings.Count(path, "/") >= 2 { // dot segments
		i := strings.LastIndexByte(path, '/')
		path = path[:i] + pick(r, []string{"/.", "/x/..", "/x/y/../..", "/%2e", "/x/%2E%2E", "/x/.%2e", "/x/%2e/..", "/x/y/%2E%2E/.."}) + path[i:]
	}
	if path == "/" && chance(r, 0.3) {
		path = ""
	}
	u := scheme + "://" + host + port + path
	if query != "" {
		u += "?" + query
	}
	if chance(r, 0.3) {
		u += "#frag"
	}
	return u
}

func c09RandomPair(r *rand.Rand) [2]string {
	scheme := pick(r, []string{"http", "https"})
	host := pick(r, []string{"a.example", "api.a.example", "[::1]", "[2001:db8::1]", "127.0.0.1"})
	port := pick(r, []string{"", "", ":8080", ":8443"})
	path := pick(r, []string{"/", "/p/q", "/~u/q", "/p%2Fq/r", "/p/%C3%A9", "/a;b/c=d", "/p/q/", "/long/" + longSeg(300)})
	query := pick(r, []string{"", "", "k=v", "k=v&x=%C3%A9", "k=a+b"})
	return [2]string{c09Respell(r, scheme, host, port, path, query), c09Respell(r, scheme, host, port, path, query)}
}

func genC09(r *rand.Rand) c09Case {
	fp := c09FreshPool()
	f := pick(r, fp)
	up := pick(r, c09URIPairs)
	if chance(r, 0.6) {
		up = c09RandomPair(r)
	}
	if chance(r, 0.25) {
		// key lengths around the file-name limits of the fs backend (base64 of 190-193 bytes is 254-258 characters)
		n := pick(r, []int{35, 36, 37, 47, 48, 49, 180 + r.IntN(25), 180 + r.IntN(25), 186, 187, 188, 189, 190, 191, 192, 193, 194, 250 + r.IntN(12), 380 + r.IntN(8)})
		u := "http://a.example/"
		for len(u) < n {
			u += string(rune('a' + len(u)%26))
		}
		up = [2]string{u, u}
	}
	if chance(r, 0.5) {
		up[0], up[1] = up[1], up[0]
	}
	hp := pick(r, c09HeaderPairs)
	if chance(r, 0.5) {
		hp.A, hp.B = hp.B, hp.A
	}
	backend := pick(r, c09Backends)
	if up[0] == up[1] && len(up[0]) > 30 && strings.HasSuffix(up[0], up[0][len(up[0])-1:]) && chance(r, 0.5) {
		backend = pick(r, []string{"fs", "fsaes", "fs-reopen"})
	}
	c := c09Case{Fresh: f.Name, Status: pick(r, c09Statuses), Backend: backend, URLa: up[0], URLb: up[1], Hdr: hp.Name,
		ReqCC: pick(r, c09ReqCC), Noise: r.IntN(4), BodySize: pick(r, []int{0, 10, 100, 5000}), fresh: f, hdr: hp}
	// elapsed: fresh by >= 2 s (min-fresh=1 needs one more)
	lim := f.Lifetime - 3
	if lim > 70*365*86400 {
		lim = 60 * 365 * 86400
	}
	if c.ReqCC == "max-age=100000" && lim > 99990 {
		lim = 99990
	}
	opts := []float64{0, 1, float64(lim) / 2, float64(lim)}
	c.ElapsedS = pick(r, opts)
	if c.ElapsedS < 0 {
		c.ElapsedS = 0
	}
	if chance(r, 0.1) && c.ElapsedS > 1 {
		c.ElapsedS -= 0.7
	}
	c.EmptyMethod = chance(r, 0.06)
	return c
}

func TestC09(t *testing.T) {
	r := run.Start(t, "C09", "scenario")
	defer r.Finish()
	n := r.Tiered(4000, 100000)
	for i := 0; i < n; i++ {
		if !r.Mine(i) {
			continue
		}
		c := genC09(r.Rand(i))
		r.Begin(i, c)
		if fail := r.Bubble(func() { c09Run(r, c) }); fail != "" {
			r.Violation("bubble", "bubble-failure", "bubble failed: "+fail, nil)
		}
		if i%50 == 0 {
			runtime.GC() // fscache.Open leaks an *os.Root until collected
		}
	}
	r.Done()
}

func c09Run(r *run.Runner, c c09Case) {
	spec := c.fresh.Spec
	spec.Status = c.Status
	spec.BodySize = c.BodySize
	spec.Vary = c.hdr.Vary
	var dir string
	var inner driver.Conn
	if c.Backend != "mem" {
		dir = scratchDir()
		defer os.RemoveAll(dir)
		var err error
		inner, err = openBackend(c.Backend, dir)
		if err != nil {
			r.Inconclusive("cannot open backend: " + err.Error())
			return
		}
	}
	w := sim.NewWorld(sim.WorldOpt{Inner: inner, Handler: func(uc *sim.UpCall, req *http.Request) *sim.Reply {
		if req.URL.Path == "/noise" || req.Method != "GET" {
			rs := RespSpec{Status: 200, CC: []string{"max-age=60"}, BodySize: 4}
			if req.Method == "HEAD" {
				rs.NoBody = true
			}
			return Render(&rs, uc.Enter, uc.Serial)
		}
		return Render(&spec, uc.Enter, uc.Serial)
	}})
	defer w.Close()
	if ua, e1 := url.Parse(c.URLa); e1 == nil {
		if ub, e2 := url.Parse(c.URLb); e2 == nil && oracle.CompareURI(ua, ub) != oracle.Equivalent {
			r.Inconclusive("generator produced a non-equivalent URI pair: " + c.URLa + " | " + c.URLb)
			return
		}
	}
	first := w.Do(sim.ReqSpec{URL: c.URLa, Header: c.hdr.A})
	if first.Header == nil || first.BodySerial() != "0.0" && c.Status != 0 {
		r.Inconclusive("first exchange failed: " + first.Summary())
		return
	}
	// noise that does not invalidate
	for k := 0; k < c.Noise; k++ {
		switch k % 3 {
		case 0:
			w.Do(sim.ReqSpec{URL: "http://a.example/noise"})
		case 1:
			w.Do(sim.ReqSpec{URL: c.URLa, Method: "HEAD", Header: c.hdr.A})
		case 2:
			if len(c.hdr.Vary) > 0 {
				// another variant of the same resource
				w.Do(sim.ReqSpec{URL: c.URLa, Header: map[string][]string{"X-A": {"other"}, "X-B": {"other"}, "Accept-Encoding": {"zstd"}, "Accept-Language": {"de"}, "Accept": {"image/png"}, "User-Agent": {"other"}}})
			}
		}
	}
	if c.Backend == "fs-reopen" || c.Backend == "fsaes-reopen" {
		ni, err := openBackend(c.Backend, dir)
		if err != nil {
			r.Inconclusive("cannot reopen backend: " + err.Error())
			return
		}
		w.Reopen(ni)
	}
	target := first.TReturn.Add(time.Duration(c.ElapsedS * float64(time.Second)))
	if d := time.Until(target); d > 0 {
		time.Sleep(d)
	}
	h := map[string][]string{}
	for k, v := range c.hdr.B {
		h[k] = v
	}
	if c.ReqCC != "" {
		h["Cache-Control"] = []string{c.ReqCC}
	}
	follow := sim.ReqSpec{URL: c.URLb, Header: h}
	if c.EmptyMethod {
		follow.Method = "<empty>" // a request built as a struct literal: "" means GET for clients
	}
	ex := w.Do(follow)
	r.Nontrivial(fmt.Sprintf("%s|%d|%s|%s|%s|%s|%v|%s|%v", c.Fresh, c.Status, c.Backend, c.URLa, c.URLb, c.Hdr, c.ElapsedS, c.ReqCC, c.EmptyMethod))
	r.Count("backend:"+c.Backend, 1)
	r.Count("fresh:"+c.Fresh, 1)
	r.Count("hdr:"+c.Hdr, 1)
	sig := fmt.Sprintf("fresh=%s,hdr=%s,backend=%s", c.Fresh, c.Hdr, c.Backend)
	if c.URLa != c.URLb {
		sig += ",respelled-uri"
	}
	if c.ReqCC != "" {
		sig += ",req=" + c.ReqCC
	}
	if c.EmptyMethod {
		sig += ",empty-method"
	}
	obs := exSummaries(w)
	switch {
	case ex.Panic != "" || ex.Err != nil:
		r.Violation("not-served", sig, "follow-up request failed: "+ex.Summary(), obs)
	case len(ex.Calls()) > 0:
		r.Violation("origin-contacted", sig, fmt.Sprintf("fresh matching stored response (lifetime >= %ds, elapsed %vs) not served from the store: origin contacted; %s", c.fresh.Lifetime, c.ElapsedS, ex.Summary()), obs)
	case ex.BodySerial() != "0.0" && !(c.BodySize == 0 && ex.XMsg() == "0.0"):
		r.Violation("wrong-response", sig, "follow-up answered with another response than the stored one; "+ex.Summary(), obs)
	case !sim.ParseBody(ex.Body).Intact:
		r.Violation("body-damaged", sig, "stored body came back damaged; "+ex.Summary(), obs)
	default:
		r.Count("served_from_store", 1)
	}
	if r.WantSample() {
		r.Sample(map[string]any{"case": c, "history": obs})
	}
	_ = filepath.Join
}

// ---- variants part: a small reference model of "must be served" ------------

type c09vStep struct {
	DtS     float64 `json:"dt_s"`
	Variant int     `json:"variant"`
	Reload  bool    `json:"reload,omitempty"` // Cache-Control: no-cache
	OnCond  string  `json:"on_cond"`          // how the origin answers a conditional request: 304 | 200
}

type c09vCase struct {
	Lifetimes []int64    `json:"lifetimes"`
	Vary      string     `json:"vary"`
	Backend   string     `json:"backend"`
	Steps     []c09vStep `json:"steps"`
	Overlap   string     `json:"overlap,omitempty"` // "" | "304" | "200": closing scene with a slow background validation
}

func genC09v(r *rand.Rand) c09vCase {
	c := c09vCase{Vary: pick(r, []string{"X-A", "X-A", "X-A, X-B", "Accept-Encoding, X-A"}), Backend: pick(r, []string{"mem", "mem", "mem", "fs", "fsaes-reopen"})}
	nv := 2 + r.IntN(3)
	for i := 0; i < nv; i++ {
		c.Lifetimes = append(c.Lifetimes, pick(r, []int64{10, 30, 60, 1000, 100000}))
	}
	n := 8 + r.IntN(20)
	for i := 0; i < n; i++ {
		c.Steps = append(c.Steps, c09vStep{DtS: pick(r, []float64{0, 1, 5, 9, 12, 25, 31, 58, 70, 500, 2000}), Variant: r.IntN(nv), Reload: chance(r, 0.15), OnCond: pick(r, []string{"304", "304", "200"})})
	}
	c.Overlap = pick(r, []string{"", "", "304", "200"})
	return c
}

func TestC09Variants(t *testing.T) {
	r := run.Start(t, "C09", "variants")
	defer r.Finish()
	n := r.Tiered(1500, 40000)
	for i := 0; i < n; i++ {
		if !r.Mine(i) {
			continue
		}
		c := genC09v(r.Rand(i))
		r.Begin(i, c)
		if fail := r.Bubble(func() { c09vRun(r, c) }); fail != "" {
			r.Violation("bubble", "bubble-failure", "bubble failed: "+fail, c)
		}
		if i%50 == 0 {
			runtime.GC()
		}
	}
	r.Done()
}

func c09vRun(r *run.Runner, c c09vCase) {
	var dir string
	var inner driver.Conn
	if c.Backend != "mem" {
		dir = scratchDir()
		defer os.RemoveAll(dir)
		var err error
		if inner, err = openBackend(c.Backend, dir); err != nil {
			r.Inconclusive("backend: " + err.Error())
			return
		}
	}
	onCond := "304"
	nv2 := 0
	w := sim.NewWorld(sim.WorldOpt{Inner: inner, Handler: func(uc *sim.UpCall, req *http.Request) *sim.Reply {
		if req.URL.Path == "/c9v2" {
			// a resource whose Vary field changes after the first reply
			nv2++
			if nv2 == 1 {
				return Render(&RespSpec{Status: 200, CC: []string{"max-age=5"}, Vary: []string{"X-A"}, BodySize: 10}, uc.Enter, uc.Serial)
			}
			return Render(&RespSpec{Status: 200, CC: []string{"max-age=100000"}, Vary: []string{"X-B"}, BodySize: 10}, uc.Enter, uc.Serial)
		}
		var v int
		fmt.Sscanf(req.Header.Get("X-A"), "v%d", &v)
		L := c.Lifetimes[v%len(c.Lifetimes)]
		if v == 7 {
			// closing scene: short-lived, stale-while-revalidate, slow background validation
			rs := RespSpec{Status: 200, CC: []string{"max-age=5, stale-while-revalidate=100000"}, ETag: `"v7"`, Vary: []string{c.Vary}, BodySize: 10}
			if uc.Background {
				rs.DelayS = 3
				if c.Overlap == "304" && uc.Conditional() {
					rs.Status, rs.BodySize = 304, 0
				}
			}
			return Render(&rs, uc.Enter, uc.Serial)
		}
		if v >= 8 {
			return Render(&RespSpec{Status: 200, CC: []string{"max-age=100000"}, ETag: fmt.Sprintf(`"v%d"`, v), Vary: []string{c.Vary}, BodySize: 10}, uc.Enter, uc.Serial)
		}
		if uc.Conditional() && onCond == "304" {
			return Render(&RespSpec{Status: 304, ETag: fmt.Sprintf(`"v%d"`, v), Vary: []string{c.Vary}}, uc.Enter, uc.Serial)
		}
		return Render(&RespSpec{Status: 200, CC: []string{"max-age=" + itoa(L)}, ETag: fmt.Sprintf(`"v%d"`, v), Vary: []string{c.Vary}, BodySize: 10}, uc.Enter, uc.Serial)
	}})
	defer w.Close()
	type st struct {
		tok        string
		freshUntil time.Time
		has        bool
	}
	model := make([]st, len(c.Lifetimes))
	judged := 0
	for si, s := range c.Steps {
		if s.DtS > 0 {
			time.Sleep(time.Duration(s.DtS * float64(time.Second)))
		}
		if c.Backend == "fsaes-reopen" && si%5 == 4 {
			if ni, err := openBackend(c.Backend, dir); err == nil {
				w.Reopen(ni)
			}
		}
		h := map[string][]string{"X-A": {fmt.Sprintf("v%d", s.Variant)}, "X-B": {"b"}, "Accept-Encoding": {"gzip"}}
		if s.Reload {
			h["Cache-Control"] = []string{"no-cache"}
		}
		onCond = s.OnCond
		now := time.Now()
		m := &model[s.Variant]
		must := m.has && !s.Reload && now.Add(2*time.Second).Before(m.freshUntil)
		ex := w.Do(sim.ReqSpec{URL: "http://a.example/c9v", Header: h})
		r.AddEvaluations(1)
		if must {
			judged++
			r.Count("must_serve_checks", 1)
			sig := fmt.Sprintf("vary=%s,backend=%s", c.Vary, c.Backend)
			switch {
			case ex.Header == nil:
				r.Violation("not-served", sig, "request failed: "+ex.Summary(), exSummaries(w))
			case len(ex.Calls()) > 0:
				r.Violation("origin-contacted", sig, fmt.Sprintf("variant %d is stored (token %s) and fresh for another %v, but the origin was contacted; %s", s.Variant, m.tok, m.freshUntil.Sub(now), ex.Summary()), exSummaries(w))
			case ex.BodySerial() != m.tok:
				r.Violation("wrong-response", sig, fmt.Sprintf("variant %d: expected stored token %s; %s", s.Variant, m.tok, ex.Summary()), exSummaries(w))
			}
		}
		// update the model from the upstream log (not from the cache's output)
		L := sec(c.Lifetimes[s.Variant])
		for _, uc := range ex.Calls() {
			if uc.Reply == nil || uc.Reply.Err != nil {
				continue
			}
			switch uc.Reply.Status {
			case 200:
				*m = st{tok: uc.Serial, freshUntil: uc.Exit.Add(L), has: true}
			case 304:
				if m.has {
					m.freshUntil = uc.Exit.Add(L)
				}
			}
		}
		if len(w.Exchanges) > 6 {
			w.Exchanges = w.Exchanges[len(w.Exchanges)-6:]
		}
	}
	if c.Overlap == "" {
		// closing scene: the origin changed its Vary field. The first response
		// (Vary: X-A, short-lived) goes stale; a request with another X-A gets
		// a long-lived response that varies on X-B instead. A request with the
		// first X-A now matches both stored responses - the stale old one and
		// the fresh new one (X-B is absent in all requests): it is answered
		// from the store.
		const url2 = "http://a.example/c9v2"
		sig := fmt.Sprintf("vary-changed,backend=%s", c.Backend)
		w.Do(sim.ReqSpec{URL: url2, Header: map[string][]string{"X-A": {"s1"}}})
		time.Sleep(7 * time.Second)
		n2 := w.Do(sim.ReqSpec{URL: url2, Header: map[string][]string{"X-A": {"s2"}}})
		if n2.BodySerial() != "" && len(n2.Calls()) == 1 {
			time.Sleep(time.Second)
			ex := w.Do(sim.ReqSpec{URL: url2, Header: map[string][]string{"X-A": {"s1"}}})
			r.AddEvaluations(1)
			judged++
			r.Count("must_serve_checks_after_vary_change", 1)
			if ex.Header == nil || len(ex.Calls()) > 0 || ex.BodySerial() != n2.BodySerial() {
				r.Violation("origin-contacted", sig, fmt.Sprintf("a fresh stored response (token %s, Vary: X-B, stored 1 s ago) matches the request, but an older stale one (Vary: X-A) was preferred and the origin contacted; %s", n2.BodySerial(), ex.Summary()), exSummaries(w))
			}
		}
	}
	if c.Overlap != "" {
		// closing scene: variants stored while a background validation of another
		// variant is in flight are still there when it has finished
		hv := func(v int) map[string][]string {
			return map[string][]string{"X-A": {fmt.Sprintf("v%d", v)}, "X-B": {"b"}, "Accept-Encoding": {"gzip"}}
		}
		const url = "http://a.example/c9v"
		sig := fmt.Sprintf("vary=%s,backend=%s,overlap=%s", c.Vary, c.Backend, c.Overlap)
		w.Do(sim.ReqSpec{URL: url, Header: hv(7)})
		time.Sleep(7 * time.Second)
		a := w.Do(sim.ReqSpec{URL: url, Header: hv(7)}) // stale; slow background validation starts
		if len(a.BgCalls()) == 1 && a.FromStore() {
			time.Sleep(time.Second)
			n8 := w.Do(sim.ReqSpec{URL: url, Header: hv(8)})
			n9 := w.Do(sim.ReqSpec{URL: url, Header: hv(9)})
			w.Settle(a, 3*time.Second)
			for _, p := range []struct {
				v   int
				tok string
			}{{8, n8.BodySerial()}, {9, n9.BodySerial()}} {
				ex := w.Do(sim.ReqSpec{URL: url, Header: hv(p.v)})
				r.AddEvaluations(1)
				judged++
				r.Count("must_serve_checks_after_overlap", 1)
				if ex.Header == nil || len(ex.Calls()) > 0 || ex.BodySerial() != p.tok {
					r.Violation("origin-contacted", sig, fmt.Sprintf("variant %d was stored (token %s, fresh for a day) while a background validation of another variant was in flight; after it finished the variant is not served from the store; %s", p.v, p.tok, ex.Summary()), exSummaries(w))
				}
			}
			// the validated variant itself is fresh again (5 s from the background reply)
			ex := w.Do(sim.ReqSpec{URL: url, Header: hv(7)})
			r.AddEvaluations(1)
			if ex.Header == nil || len(ex.Calls()) > 0 {
				r.Violation("origin-contacted", sig+",validated-variant", "the variant validated in the background (lifetime 5 s) is requested 1 s after the reply but not served from the store; "+ex.Summary(), exSummaries(w))
			}
		}
		w.Settle(nil, 10*time.Second)
	}
	if judged > 0 {
		r.Nontrivial(fmt.Sprintf("%+v", c))
		if r.WantSample() {
			r.Sample(map[string]any{"case": c, "must_serve_checks": judged, "tail": exSummaries(w)})
		}
	}
}
