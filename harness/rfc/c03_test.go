package rfc

import (
	"fmt"
	"math/rand/v2"
	"net/http"
	"net/url"
	"strings"
	"testing"

	"verif/harness/mon"
	"verif/harness/oracle"
	"verif/harness/run"
	"verif/harness/sim"
)

// component pools for C03
var (
	c03Schemes = []string{"http", "https", "HTTP"}
	c03Hosts   = []string{"a.example", "A.Example", "b.example", "a.example.", "127.0.0.1", "[::1]", "[::1:8080]", "[2001:db8::1]", "xn--nxasmq6b.example"}
	c03Ports   = []string{"", ":", ":80", ":443", ":8080", ":080"}
	c03Paths   = []string{"", "/", "/a", "/A", "/%61", "/%41", "/a/", "/a/b", "/a%2Fb", "/a%2fb", "/a/./b", "/a/x/../b", "/a/%2e/b", "/~u", "/%7Eu", "/%7eu",
		"/é", "/%E9", "/%C3%A9", "/%c3%a9", "/\xe9", "/\xe8", "/\xff", "/\xef\xbf\xbd", "/%EF%BF%BD", "/a;p", "/a;p=1", "/a%20b", "/a+b", "/a%2Bb", "//a", "/a//b", "/%00", "/%25", "/%2561"}
	c03Queries = []string{"", "?", "?q=1", "?q=%E9", "?q=é", "?q=%C3%A9", "?q=\xe9", "?q=\xe8", "?q=\xff", "?q=\xef\xbf\xbd", "?q=%EF%BF%BD", "?q=\xc3", "?q=\xc3\x28", "?a=1&b=2", "?b=2&a=1", "?q=a+b", "?q=a%20b", "?q=a%2Bb", "?Q=1", "?q=%41", "?q=A", "?q=%7e", "?q=~", "?q=1#f"}
	c03Frags   = []string{"", "#x"}
	c03User    = []string{"", "u@", "u:p@"}
)

type c03URL struct {
	S string `json:"s"` // URL text, or "struct:..." for hand-built url.URL values
}

func c03Build(s string) (*url.URL, error) {
	if strings.HasPrefix(s, "struct:") {
		// hand-built forms: struct:<kind>:<rest>
		parts := strings.SplitN(s, ":", 3)
		switch parts[1] {
		case "rawpath": // Path with a RawPath hint that encodes differently
			return &url.URL{Scheme: "http", Host: "a.example", Path: "/a b/c", RawPath: "/a%20b/c"}, nil
		case "forcequery":
			return &url.URL{Scheme: "http", Host: "a.example", Path: "/a", ForceQuery: true}, nil
		case "opaque":
			return &url.URL{Scheme: parts[2], Opaque: "//a.example/a"}, nil
		case "opaqueh": // opaque request target sent to the host named here, with a query
			hq := strings.SplitN(parts[2], "?", 2)
			u := &url.URL{Scheme: "http", Host: hq[0], Opaque: "//a.example/a"}
			if len(hq) == 2 {
				u.RawQuery = hq[1]
			}
			return u, nil
		case "space":
			return &url.URL{Scheme: "http", Host: "a.example", Path: "/a b"}, nil
		case "pathchar": // a literal character in Path, encoded by net/url as it sees fit
			var n int
			fmt.Sscanf(parts[2], "%d", &n)
			return &url.URL{Scheme: "http", Host: "a.example", Path: "/p" + string(rune(n))}, nil
		case "upperhost":
			return &url.URL{Scheme: "http", Host: "A.EXAMPLE:80", Path: "/a"}, nil
		}
		return nil, fmt.Errorf("unknown struct form")
	}
	return url.Parse(s)
}

func c03Grid() []string {
	var out []string
	for _, sc := range c03Schemes {
		for _, h := range c03Hosts {
			for _, p := range c03Ports {
				for _, pa := range []string{"", "/a", "/%E9", "/é"} {
					out = append(out, sc+"://"+h+p+pa)
				}
			}
		}
	}
	for _, pa := range c03Paths {
		for _, q := range c03Queries {
			for _, fr := range c03Frags {
				out = append(out, "http://a.example"+pa+q+fr)
			}
		}
	}
	for _, u := range c03User {
		for _, pa := range []string{"/a", "/%41"} {
			out = append(out, "http://"+u+"a.example"+pa)
		}
	}
	// every ASCII character: its percent-escape (both cases) and, where a Go
	// client can express it, the literal - in the path and in the query
	for c := 0; c < 128; c++ {
		out = append(out, fmt.Sprintf("http://a.example/p%%%02X", c), fmt.Sprintf("http://a.example/p%%%02x", c),
			fmt.Sprintf("http://a.example/p?k=%%%02X", c), fmt.Sprintf("http://a.example/p?k=%%%02x", c))
		if c > 0x20 && c < 0x7f && c != '%' && c != '#' && c != '?' {
			out = append(out, "http://a.example/p"+string(rune(c)))
		}
		if c > 0x20 && c < 0x7f && c != '%' && c != '#' {
			out = append(out, "http://a.example/p?k="+string(rune(c)))
		}
		out = append(out, fmt.Sprintf("struct:pathchar:%d", c))
	}
	// malformed percent-escapes in the query (net/url accepts them there and
	// net/http sends them as they are): a '%' not followed by two hex digits is
	// a literal character, never an escape of something else
	for _, x := range []string{"g", "z", "G", "Z", "&", "=", "-", "%", "+", "~", "x", "q"} {
		for _, d := range []string{"1", "4", "a", "F"} {
			out = append(out, "http://a.example/p?k=%"+x+d, "http://a.example/p?k=%"+d+x, "http://a.example/p?k=%"+x+d+"&x=1")
		}
		out = append(out, "http://a.example/p?k=%"+x+x, "http://a.example/p?k=%"+x)
	}
	out = append(out, "http://a.example/p?k=%", "http://a.example/p?k=%4", "http://a.example/p?k=%%34", "http://a.example/p?k=%%341", "http://a.example/p?k=100%&x=1", "http://a.example/p?k=100q=1", "http://a.example/p?k=%zz", "http://a.example/p?k=3")
	// dot segments inside the query are data, not path structure
	out = append(out, "http://a.example/p?next=/admin/../public", "http://a.example/p?next=/public", "http://a.example/p?next=/a/./b", "http://a.example/p?next=/a/b",
		"http://a.example/p?next=/a/%2E%2E/b", "http://a.example/p?next=/b", "http://a.example/p?next=/a/..", "http://a.example/p?next=/", "http://a.example/p?next=..", "http://a.example/p?next=.", "http://a.example/p?next=")
	out = append(out, "struct:rawpath:", "struct:forcequery:", "struct:opaque:http", "struct:opaque:https", "struct:space:", "struct:upperhost:")
	out = append(out, "struct:opaqueh:a.example", "struct:opaqueh:b.example", "struct:opaqueh:A.EXAMPLE", "struct:opaqueh:a.example?user=1", "struct:opaqueh:a.example?user=2", "struct:opaqueh:b.example?user=1")
	// dot-segments spelled both ways in one path; hosts that differ only by a
	// letter whose Unicode lower-casing is an ASCII letter
	out = append(out, "http://a.example/a/b", "http://a.example/b", "http://a.example/a/%2E%2E/../b", "http://a.example/a/../%2e%2e/b", "http://a.example/x/a/%2e/../b", "http://a.example/x/b",
		"http://\u0130stanbul.example/a", "http://istanbul.example/a", "http://ISTANBUL.example/a", "http://\u212aelvin.example/a", "http://kelvin.example/a")
	// a path that ends in a dot segment keeps its trailing slash (RFC 3986 5.2.4:
	// "/a/." is "/a/", not "/a")
	out = append(out, "http://a.example/a/.", "http://a.example/a/b/..", "http://a.example/a/%2E", "http://a.example/a/b/%2e%2e", "http://a.example/a/", "http://a.example/a", "http://a.example/a/..", "http://a.example/", "http://a.example/a/./", "http://a.example/a/b/../", "http://a.example/a/b/.", "http://a.example/a/b/", "http://a.example/a/b/../..", "http://a.example/.", "http://a.example/..")
	// IPv6 literals with a zone
	out = append(out, "http://[fe80::1%25eth0]/a", "http://[fe80::1%25eth0]/a/../a", "http://[FE80::1%25eth0]:80/%61#x", "http://[fe80::1%25eth1]/a", "http://[fe80::2%25eth0]/a", "http://[fe80::1%25eth0]:8080/a", "http://[fe80::1%25eth0]/b")
	// drop what Go cannot parse / build a request for
	var ok []string
	seen := map[string]bool{}
	for _, s := range out {
		if seen[s] {
			continue
		}
		seen[s] = true
		u, err := c03Build(s)
		if err != nil || u.Host == "" && u.Opaque == "" {
			continue
		}
		ok = append(ok, s)
	}
	return ok
}

func c03Random(r *rand.Rand) string {
	if chance(r, 0.03) {
		return pick(r, []string{"struct:rawpath:", "struct:forcequery:", "struct:opaque:http", "struct:opaque:https", "struct:space:", "struct:upperhost:", "struct:opaqueh:a.example", "struct:opaqueh:b.example", "struct:opaqueh:a.example?user=1", "struct:opaqueh:a.example?user=2"})
	}
	s := pick(r, c03Schemes) + "://"
	if chance(r, 0.1) {
		s += pick(r, c03User)
	}
	h := pick(r, c03Hosts)
	if chance(r, 0.5) {
		h = pick(r, []string{"a.example", "A.Example", "[::1]", "[::1:8080]"})
	}
	s += h + pick(r, c03Ports)
	// path: 1-2 segments from the pool
	p := pick(r, c03Paths)
	if chance(r, 0.3) {
		p += pick(r, c03Paths)
	}
	if chance(r, 0.3) {
		c := 0x21 + r.IntN(0x5e)
		switch r.IntN(3) {
		case 0:
			p += fmt.Sprintf("/x%%%02X", c)
		case 1:
			p += fmt.Sprintf("/x%%%02x", c)
		default:
			if c != '%' && c != '#' && c != '?' {
				p += "/x" + string(rune(c))
			}
		}
	}
	s += p + pick(r, c03Queries)
	if chance(r, 0.2) && !strings.Contains(s, "#") {
		s += "#f"
	}
	return s
}

type c03Case struct {
	URLs []string `json:"urls"`
}

// TestC03Bulk stores a token-tagged long-lived response for each of N URIs in
// one cache and requests all N again: any key collision among the N shows up
// as a foreign token in the store or the lookup phase.
func TestC03Bulk(t *testing.T) {
	r := run.Start(t, "C03", "bulk")
	defer r.Finish()
	grid := c03Grid()
	nsets := r.Tiered(300, 20000)
	// thorough: the whole grid in chunks (all pairs inside a chunk) + shifted chunkings
	var cases []c03Case
	if r.Thorough() {
		for _, stride := range []int{1, 7, 31} {
			perm := make([]string, len(grid))
			for i := range grid {
				perm[i] = grid[(i*stride)%len(grid)]
			}
			if stride != 1 && len(grid)%stride == 0 {
				continue
			}
			for i := 0; i < len(perm); i += 400 {
				cases = append(cases, c03Case{URLs: perm[i:min(i+400, len(perm))]})
			}
		}
		// whole grid in one cache
		cases = append(cases, c03Case{URLs: grid})
	}
	if !r.Thorough() {
		// quick: the ASCII escape family and the host/port family, each in one cache
		var fam, hp, st []string
		for _, u := range grid {
			if strings.HasPrefix(u, "http://a.example/p") || strings.HasPrefix(u, "struct:pathchar") {
				fam = append(fam, u)
			} else if !strings.HasPrefix(u, "http://a.example") && !strings.HasPrefix(u, "struct:") {
				hp = append(hp, u)
			} else if strings.HasPrefix(u, "struct:") {
				st = append(st, u) // hand-built URL values (opaque forms, ...)
			}
		}
		st = append(st, "http://a.example/a", "https://a.example/a", "http://b.example/a", "http://a.example/a?user=1",
			"http://a.example/a/b", "http://a.example/b", "http://a.example/a/%2E%2E/../b", "http://a.example/a/../%2e%2e/b", "http://a.example/x/a/%2e/../b", "http://a.example/x/b",
			"http://a.example/a/.", "http://a.example/a/b/..", "http://a.example/a/%2E", "http://a.example/a/b/%2e%2e", "http://a.example/a/", "http://a.example/a", "http://a.example/a/..", "http://a.example/", "http://a.example/a/./", "http://a.example/a/b/../", "http://a.example/a/b/.", "http://a.example/a/b/", "http://a.example/a/b/../..", "http://a.example/.", "http://a.example/..")
		cases = append(cases, c03Case{URLs: fam}, c03Case{URLs: hp}, c03Case{URLs: st})
	}
	base := len(cases)
	for i := 0; i < nsets; i++ {
		cases = append(cases, c03Case{})
	}
	for i := range cases {
		if !r.Mine(i) {
			continue
		}
		c := cases[i]
		if i >= base {
			rng := r.Rand(i)
			n := 40
			seen := map[string]bool{}
			for len(c.URLs) < n {
				var s string
				if chance(rng, 0.3) {
					s = pick(rng, grid)
				} else {
					s = c03Random(rng)
				}
				if u, err := c03Build(s); err != nil || (u.Host == "" && u.Opaque == "") || seen[s] {
					continue
				}
				seen[s] = true
				c.URLs = append(c.URLs, s)
			}
		}
		r.Begin(i, c)
		if fail := r.Bubble(func() { c03Run(r, c) }); fail != "" {
			r.Violation("bubble", "bubble-failure", "bubble failed: "+fail, nil)
		}
	}
	r.Done()
}

func c03Run(r *run.Runner, c c03Case) {
	w := sim.NewWorld(sim.WorldOpt{Handler: func(uc *sim.UpCall, req *http.Request) *sim.Reply {
		return Render(&RespSpec{Status: 200, CC: []string{"max-age=1000000"}, BodySize: 4}, uc.Enter, uc.Serial)
	}})
	defer w.Close()
	urls := make([]*url.URL, len(c.URLs))
	for i, s := range c.URLs {
		urls[i], _ = c03Build(s)
	}
	classes := map[string]int{}
	visit := func(ex *sim.Exchange) {
		r.AddEvaluations(1)
		in := mon.Classify(w, ex)
		vs, ante, cls := mon.C03(w, in)
		if ante {
			r.Count("from_store:"+cls, 1)
		}
		for _, v := range vs {
			r.Violation(v.Clause, v.Sig, v.Msg, nil)
		}
		for _, v := range mon.C10Basic(in) {
			r.CrossObs("C10:"+v.Clause, 1)
		}
	}
	for phase := 0; phase < 2; phase++ {
		for i := range urls {
			u := *urls[i]
			ex := w.Do(sim.ReqSpec{URLObj: &u, URL: c.URLs[i]})
			visit(ex)
		}
	}
	// pairs implied
	n := len(urls)
	r.Count("uris_stored", n)
	r.Count("pairs_implied", n*(n-1)/2)
	if n <= 60 {
		for i := 0; i < n; i++ {
			for j := i + 1; j < n; j++ {
				cl := oracle.CompareURI(urls[i], urls[j])
				classes[cl.String()]++
				if cl == oracle.Distinct && (i+j)%8 == 0 { // 1/8 subsample keeps the hash set small
					r.Nontrivial(oracle.KeyOf(urls[i]).Strict + " | " + oracle.KeyOf(urls[j]).Strict)
				}
			}
		}
		for k, v := range classes {
			r.Count("pair_class:"+k, v)
		}
	} else {
		for i := 0; i < n; i++ {
			r.Nontrivial("grid:" + c.URLs[i])
		}
	}
	if r.WantSample() {
		r.Sample(map[string]any{"uris": c.URLs[:min(12, len(c.URLs))], "n": len(c.URLs), "pair_classes": classes})
	}
}

// TestC03Methods: every method and GET+Range against a populated cache.
func TestC03Methods(t *testing.T) {
	r := run.Start(t, "C03", "methods")
	defer r.Finish()
	methods := []string{"HEAD", "POST", "PUT", "DELETE", "PATCH", "OPTIONS", "PROPFIND", "FOO", "TRACE", "GET+Range", "get", "<empty>", "<empty>+Range"}
	for i, m := range methods {
		if !r.Mine(i) {
			continue
		}
		r.Begin(i, m)
		fail := r.Bubble(func() {
			w := sim.NewWorld(sim.WorldOpt{Handler: func(uc *sim.UpCall, req *http.Request) *sim.Reply {
				rs := &RespSpec{Status: 200, CC: []string{"max-age=1000000"}, BodySize: 4}
				if req.Method == "HEAD" {
					rs.NoBody = true
				}
				return Render(rs, uc.Enter, uc.Serial)
			}})
			defer w.Close()
			w.Do(sim.ReqSpec{URL: "http://a.example/m"})
			spec := sim.ReqSpec{URL: "http://a.example/m", Method: m}
			if m == "GET+Range" {
				spec.Method = "GET"
				spec.Header = map[string][]string{"Range": {"bytes=0-1"}}
			}
			if m == "<empty>+Range" {
				spec.Method = "<empty>"
				spec.Header = map[string][]string{"Range": {"bytes=0-1"}}
			}
			for k := 0; k < 2; k++ {
				ex := w.Do(spec)
				r.AddEvaluations(1)
				in := mon.Classify(w, ex)
				vs, _, _ := mon.C03(w, in)
				for _, v := range vs {
					r.Violation(v.Clause, v.Sig, v.Msg, exSummaries(w))
				}
				if !in.FromStore || m == "<empty>" {
					r.Nontrivial("method:" + m)
					r.Count("not_from_store", 1)
				}
			}
			// and the stored GET response is not replaced by what the other method fetched
			ex := w.Do(sim.ReqSpec{URL: "http://a.example/m"})
			in := mon.Classify(w, ex)
			vs, _, _ := mon.C03(w, in)
			for _, v := range vs {
				r.Violation(v.Clause, v.Sig, v.Msg, exSummaries(w))
			}
		})
		if fail != "" {
			r.Violation("bubble", "bubble-failure", "bubble failed: "+fail, nil)
		}
	}
	r.Done()
}
