package rfc

import (
	"fmt"
	"math/rand/v2"
	"net/http"
	"strings"
	"testing"
	"time"

	"verif/harness/run"
	"verif/harness/sim"
)

// c12Base is a scripted history in canonical spelling.
type c12Base struct {
	Name    string    `json:"name"`
	Status  int       `json:"status"`
	RespCC  []string  `json:"resp_cc"` // canonical directives of the stored response
	Expires string    `json:"expires,omitempty"`
	LastMod string    `json:"last_mod,omitempty"`
	OnCond  string    `json:"on_cond"`          // "304" | "503" | "200"
	CC304   []string  `json:"cc_304,omitempty"` // directives the 304 carries (re-spelled like the response's)
	Steps   []c12Step `json:"steps"`
}

type c12Step struct {
	DtS   float64  `json:"dt_s"`
	ReqCC []string `json:"req_cc,omitempty"`
}

func c12Bases() []c12Base {
	var out []c12Base
	add := func(name string, status int, resp []string, onCond string, steps ...c12Step) {
		out = append(out, c12Base{Name: name, Status: status, RespCC: resp, LastMod: "-1000", OnCond: onCond, Steps: steps})
	}
	s := func(dt float64, cc ...string) c12Step { return c12Step{DtS: dt, ReqCC: cc} }
	// response directives
	add("r:max-age", 200, []string{"max-age=10"}, "304", s(0), s(5), s(6))
	add("r:max-age+private", 200, []string{"private", "max-age=10"}, "304", s(0), s(5), s(6))
	add("r:no-store", 200, []string{"no-store", "max-age=10"}, "304", s(0), s(1))
	add("r:no-cache", 200, []string{"no-cache", "max-age=10"}, "304", s(0), s(1), s(1))
	add("r:no-cache-fields", 200, []string{`no-cache="X-Extra"`, "max-age=10"}, "304", s(0), s(1), s(20))
	// both forms of no-cache in one field (RFC 9111 5.2.2.4): the unqualified form
	// covers the whole response wherever it stands; field lists add up
	add("r:no-cache+no-cache-fields", 200, []string{"no-cache", `no-cache="X-Extra"`, "max-age=10"}, "304", s(0), s(1), s(1))
	add("r:no-cache-fields+no-cache", 200, []string{`no-cache="X-Extra"`, "no-cache", "max-age=10"}, "304", s(0), s(1), s(1))
	add("r:no-cache-fields-twice", 200, []string{`no-cache="X-Other"`, `no-cache="X-Extra"`, "max-age=10"}, "304", s(0), s(1), s(20))
	add("r:must-revalidate", 200, []string{"must-revalidate", "max-age=10"}, "304", s(0), s(5), s(10, "max-stale"), s(1, "max-stale=100"))
	add("r:must-revalidate+503", 200, []string{"must-revalidate", "max-age=10", "stale-if-error=100"}, "503", s(0), s(20), s(1))
	add("r:max-age=0", 200, []string{"max-age=0"}, "304", s(0), s(0), s(1))
	add("r:public-302", 302, []string{"public", "max-age=10"}, "304", s(0), s(5), s(20))
	add("r:public-heuristic-302", 302, []string{"public"}, "304", s(0), s(5), s(2000))
	add("r:immutable", 200, []string{"immutable", "max-age=10"}, "304", s(0), s(5, "max-age=1"), s(1, "no-cache"), s(20))
	add("r:swr", 200, []string{"max-age=10", "stale-while-revalidate=30"}, "304", s(0), s(15), s(1), s(100))
	add("r:swr+req-no-cache", 200, []string{"max-age=10", "stale-while-revalidate=30"}, "304", s(0), s(15, "no-cache"), s(20, "max-age=0"))
	add("r:sie", 200, []string{"max-age=10", "stale-if-error=30"}, "503", s(0), s(15), s(10), s(100))
	add("r:must-understand", 299, []string{"must-understand", "max-age=10"}, "304", s(0), s(1))
	add("r:must-understand+no-store", 200, []string{"must-understand", "no-store", "max-age=10"}, "304", s(0), s(1))
	add("r:s-maxage-ignored", 200, []string{"s-maxage=1000", "max-age=10"}, "304", s(0), s(5), s(20))
	// a 304 that carries (new) directives: they replace the stored ones
	out = append(out,
		c12Base{Name: "304:max-age+no-cache", Status: 200, RespCC: []string{"max-age=0"}, LastMod: "-1000", OnCond: "304", CC304: []string{"max-age=60", "no-cache"}, Steps: []c12Step{s(0), s(1), s(1), s(1)}},
		c12Base{Name: "304:private+max-age", Status: 200, RespCC: []string{"max-age=0"}, LastMod: "-1000", OnCond: "304", CC304: []string{"private", "max-age=60"}, Steps: []c12Step{s(0), s(1), s(1), s(70)}},
		c12Base{Name: "304:max-age+must-revalidate", Status: 200, RespCC: []string{"max-age=0"}, LastMod: "-1000", OnCond: "304", CC304: []string{"max-age=10", "must-revalidate"}, Steps: []c12Step{s(0), s(1), s(5), s(20, "max-stale")}},
		c12Base{Name: "304:no-store", Status: 200, RespCC: []string{"max-age=0"}, LastMod: "-1000", OnCond: "304", CC304: []string{"max-age=60", "no-store"}, Steps: []c12Step{s(0), s(1), s(1)}},
	)
	// request directives against a plain stored response
	plain := []string{"max-age=100"}
	add("q:no-cache", 200, plain, "304", s(0), s(5, "no-cache"), s(1))
	add("q:no-store", 200, plain, "304", s(0, "no-store"), s(1), s(1, "no-store"))
	add("q:max-age=0", 200, plain, "304", s(0), s(5, "max-age=0"), s(1))
	add("q:max-age=5", 200, plain, "304", s(0), s(3, "max-age=5"), s(10, "max-age=5"))
	add("q:max-stale", 200, []string{"max-age=10"}, "304", s(0), s(15, "max-stale"), s(1000, "max-stale"))
	add("q:max-stale=5", 200, []string{"max-age=10"}, "304", s(0), s(12, "max-stale=5"), s(10, "max-stale=5"))
	add("q:min-fresh=5", 200, []string{"max-age=10"}, "304", s(0), s(3, "min-fresh=5"), s(4, "min-fresh=5"))
	add("q:only-if-cached", 200, []string{"max-age=10"}, "304", s(0, "only-if-cached"), s(1), s(1, "only-if-cached"), s(20, "only-if-cached"))
	add("q:only-if-cached+no-cache", 200, plain, "304", s(0), s(1, "only-if-cached", "no-cache"), s(1, "only-if-cached", "max-stale"))
	add("q:stale-if-error", 200, []string{"max-age=10"}, "503", s(0), s(15, "stale-if-error=30"), s(100, "stale-if-error=30"))
	add("q:max-age+max-stale", 200, []string{"max-age=10"}, "304", s(0), s(12, "max-age=5", "max-stale=10"), s(10, "max-age=5", "max-stale=10"))
	return out
}

// ---- rewrites ---------------------------------------------------------------

type c12Rewrite struct {
	Kinds []string `json:"kinds"`
	Seed  uint64   `json:"seed"`
}

var c12Kinds = []string{"case", "ows", "empty", "quoted-delta", "token-fields", "split-lines", "order", "extensions", "quoted-pair", "dup", "no-cache-both"}

func rewriteCC(dirs []string, rw c12Rewrite) []string {
	if len(dirs) == 0 {
		return nil
	}
	r := rand.New(rand.NewPCG(rw.Seed, 99))
	has := func(k string) bool {
		for _, x := range rw.Kinds {
			if x == k {
				return true
			}
		}
		return false
	}
	ds := append([]string(nil), dirs...)
	if has("order") {
		r.Shuffle(len(ds), func(i, j int) { ds[i], ds[j] = ds[j], ds[i] })
	}
	if has("dup") {
		// one directive repeated verbatim: the copy says what the original says
		k := r.IntN(len(ds))
		pos := r.IntN(len(ds) + 1)
		ds = append(ds[:pos], append([]string{ds[k]}, ds[pos:]...)...)
	}
	if has("no-cache-both") {
		// next to an unqualified no-cache a qualified one adds nothing (RFC 9111
		// 5.2.2.4: the unqualified form already covers the whole response)
		for _, d := range ds {
			if d == "no-cache" {
				pos := r.IntN(len(ds) + 1)
				ds = append(ds[:pos], append([]string{pick(r, []string{`no-cache="X-Extra"`, `no-cache="X-Absent"`, `no-cache="X-Extra, ETag"`})}, ds[pos:]...)...)
				break
			}
		}
	}
	for i, d := range ds {
		name, arg, hasArg := strings.Cut(d, "=")
		if has("case") {
			switch r.IntN(3) {
			case 0:
				name = strings.ToUpper(name)
			case 1:
				name = strings.ToUpper(name[:1]) + name[1:]
				if j := strings.IndexByte(name, '-'); j > 0 && j+1 < len(name) {
					name = name[:j+1] + strings.ToUpper(name[j+1:j+2]) + name[j+2:]
				}
			default:
				b := []byte(name)
				for k := range b {
					if r.IntN(2) == 0 {
						b[k] = strings.ToUpper(string(b[k]))[0]
					}
				}
				name = string(b)
			}
		}
		if hasArg {
			if has("quoted-delta") && !strings.HasPrefix(arg, `"`) {
				arg = `"` + arg + `"`
			}
			if has("token-fields") && strings.HasPrefix(arg, `"`) && !strings.ContainsAny(arg, ", ") {
				arg = strings.Trim(arg, `"`)
			}
			if has("quoted-pair") {
				// quoted-string with quoted-pairs (also as the last character)
				inner := strings.Trim(arg, `"`)
				if inner != "" && !strings.ContainsAny(inner, `\"`) {
					var qb strings.Builder
					for k := 0; k < len(inner); k++ {
						if k == len(inner)-1 || r.IntN(3) == 0 {
							qb.WriteByte('\\')
						}
						qb.WriteByte(inner[k])
					}
					arg = `"` + qb.String() + `"`
				}
			}
			ds[i] = name + "=" + arg
		} else {
			ds[i] = name
		}
	}
	if has("extensions") {
		exts := []string{"x-no-store", "no-storex", `ext="a, no-store"`, "ext=no-cache", "foo=bar", `ext="x, max-age=0, no-cache"`, "max-agex=0", "xmax-age=0", `community="UCI"`,
			`ext="a\\"`, `ext="\\"`, `ext="a\"b, no-store"`, `ext="\", no-store, \""`, `ext="\\\\"`, `ext=""`}
		n := 1 + r.IntN(3)
		for k := 0; k < n; k++ {
			pos := r.IntN(len(ds) + 1)
			ds = append(ds[:pos], append([]string{pick(r, exts)}, ds[pos:]...)...)
		}
	}
	if has("empty") {
		pos := r.IntN(len(ds) + 1)
		ds = append(ds[:pos], append([]string{""}, ds[pos:]...)...)
		if r.IntN(2) == 0 {
			ds = append(ds, "")
		}
	}
	sep := ", "
	if has("ows") {
		sep = pick(r, []string{",", " , ", ",\t", "  ,  "})
	}
	lines := []string{strings.Join(ds, sep)}
	if has("split-lines") && len(ds) > 1 {
		k := 1 + r.IntN(len(ds)-1)
		lines = []string{strings.Join(ds[:k], sep), strings.Join(ds[k:], sep)}
		if len(ds[k:]) > 1 && r.IntN(2) == 0 {
			m := k + 1 + r.IntN(len(ds)-k-1)
			lines = []string{strings.Join(ds[:k], sep), strings.Join(ds[k:m], sep), strings.Join(ds[m:], sep)}
		}
	}
	var out []string
	for _, l := range lines {
		if strings.TrimSpace(strings.ReplaceAll(l, ",", "")) != "" || len(lines) == 1 {
			out = append(out, l)
		}
	}
	return out
}

// c12Vector runs a base history with given spellings and returns the observation vector.
func c12Vector(b *c12Base, respCC func([]string) []string, reqCC func([]string) []string) ([]string, *sim.World) {
	w := sim.NewWorld(sim.WorldOpt{Handler: func(uc *sim.UpCall, req *http.Request) *sim.Reply {
		if uc.Conditional() {
			switch b.OnCond {
			case "304":
				rs := RespSpec{Status: 304, ETag: `"e"`}
				if len(b.CC304) > 0 {
					rs.CC = respCC(b.CC304)
				}
				return Render(&rs, uc.Enter, uc.Serial)
			case "503":
				return Render(&RespSpec{Status: 503, BodySize: 3}, uc.Enter, uc.Serial)
			}
		}
		rs := RespSpec{Status: b.Status, CC: respCC(b.RespCC), Expires: b.Expires, LastMod: b.LastMod, ETag: `"e"`, BodySize: 10,
			Extra: map[string][]string{"X-Extra": {"1"}}}
		return Render(&rs, uc.Enter, uc.Serial)
	}})
	defer w.Close()
	var vec []string
	for _, st := range b.Steps {
		if st.DtS > 0 {
			time.Sleep(time.Duration(st.DtS * float64(time.Second)))
		}
		spec := sim.ReqSpec{URL: "http://a.example/c12"}
		if len(st.ReqCC) > 0 {
			spec.Header = map[string][]string{"Cache-Control": reqCC(st.ReqCC)}
		}
		ex := w.Do(spec)
		w.Settle(ex, 0)
		var up []string
		for _, c := range ex.Calls() {
			u := fmt.Sprintf("%v/%v", c.Background, c.Conditional())
			up = append(up, u)
		}
		writes := 0
		for _, op := range ex.StoreOps {
			if op.Op == "set" {
				writes++
			}
		}
		extra := ""
		if ex.Header != nil {
			extra = ex.Header.Get("X-Extra")
		}
		vec = append(vec, fmt.Sprintf("status=%d cache=%s body=%s hdr=%s up=%v writes=%d x-extra=%q err=%v", ex.Status, ex.CacheStatus(), ex.BodySerial(), ex.XMsg(), up, writes, extra, ex.Err != nil))
	}
	return vec, w
}

type c12Case struct {
	Base    string     `json:"base"`
	Side    string     `json:"side"` // "resp" | "req" | "both"
	Rewrite c12Rewrite `json:"rewrite"`
	RespCC  []string   `json:"resp_cc_rewritten,omitempty"`
}

func identity(d []string) []string { return []string{strings.Join(d, ", ")} }

func TestC12(t *testing.T) {
	r := run.Start(t, "C12", "spelling")
	defer r.Finish()
	bases := c12Bases()
	type job struct {
		b    int
		side string
		rw   c12Rewrite
	}
	var jobs []job
	if r.Thorough() {
		for bi := range bases {
			for _, k := range c12Kinds {
				for v := 0; v < 6; v++ {
					for _, side := range []string{"resp", "req"} {
						jobs = append(jobs, job{bi, side, c12Rewrite{Kinds: []string{k}, Seed: uint64(v)}})
					}
				}
			}
		}
	}
	nrand := r.Tiered(800, 30000)
	base := len(jobs)
	for i := 0; i < nrand; i++ {
		jobs = append(jobs, job{})
	}
	for i := range jobs {
		if !r.Mine(i) {
			continue
		}
		j := jobs[i]
		if i >= base {
			rng := r.Rand(i)
			j.b = rng.IntN(len(bases))
			j.side = pick(rng, []string{"resp", "req", "both"})
			nk := 1 + rng.IntN(3)
			for k := 0; k < nk; k++ {
				j.rw.Kinds = append(j.rw.Kinds, pick(rng, c12Kinds))
			}
			j.rw.Seed = rng.Uint64()
		}
		b := &bases[j.b]
		c := c12Case{Base: b.Name, Side: j.side, Rewrite: j.rw, RespCC: rewriteCC(b.RespCC, j.rw)}
		r.Begin(i, c)
		rwf := func(d []string) []string { return rewriteCC(d, j.rw) }
		respF, reqF := identity, identity
		if j.side != "req" {
			respF = rwf
		}
		if j.side != "resp" {
			reqF = rwf
		}
		var va, vb, vplain []string
		fail := r.Bubble(func() { va, _ = c12Vector(b, identity, identity) })
		fail2 := r.Bubble(func() { vb, _ = c12Vector(b, respF, reqF) })
		// decisiveness: the same history without any directive
		r.Bubble(func() {
			vplain, _ = c12Vector(b, func([]string) []string { return nil }, func([]string) []string { return nil })
		})
		if fail != "" || fail2 != "" {
			r.Violation("bubble", "bubble-failure", "bubble failed: "+fail+fail2, nil)
			continue
		}
		decisive := strings.Join(va, "\n") != strings.Join(vplain, "\n")
		if decisive {
			r.Count("decisive_pairs", 1)
			r.Nontrivial(fmt.Sprintf("%s|%s|%v|%d", b.Name, j.side, j.rw.Kinds, j.rw.Seed))
		} else {
			r.Count("non_decisive_pairs", 1)
		}
		for _, k := range j.rw.Kinds {
			r.Count("rewrite:"+k, 1)
		}
		if strings.Join(va, "\n") != strings.Join(vb, "\n") {
			diff := ""
			for k := range va {
				if k < len(vb) && va[k] != vb[k] {
					diff += fmt.Sprintf("\n  exchange %d canonical: %s\n  exchange %d rewritten: %s", k, va[k], k, vb[k])
				}
			}
			r.Violation("spelling-changes-behaviour", fmt.Sprintf("base=%s,side=%s,kinds=%s", b.Name, j.side, strings.Join(uniq(j.rw.Kinds), "+")),
				fmt.Sprintf("history %q behaves differently when Cache-Control is re-spelled (%s side, rewrites %v; response field %q):%s", b.Name, j.side, j.rw.Kinds, c.RespCC, diff), map[string]any{"canonical": va, "rewritten": vb})
		}
		if r.WantSample() && decisive {
			r.Sample(map[string]any{"case": c, "canonical_vector": va, "rewritten_vector": vb})
		}
	}
	r.Done()
}

func uniq(a []string) []string {
	seen := map[string]bool{}
	var out []string
	for _, x := range a {
		if !seen[x] {
			seen[x] = true
			out = append(out, x)
		}
	}
	return out
}

// TestC12Overflow: huge delta-seconds behave like 2147483648 at every probe
// time below 2^31 s.
func TestC12Overflow(t *testing.T) {
	r := run.Start(t, "C12", "overflow")
	defer r.Finish()
	type ob struct {
		name   string
		resp   func(v string) []string
		req    func(v string) []string
		onCond string
		warm   float64 // elapsed before the probes start (so that the directive matters)
	}
	bases := []ob{
		{"resp max-age", func(v string) []string { return []string{"max-age=" + v} }, nil, "304", 0},
		{"req max-stale", func(string) []string { return []string{"max-age=10"} }, func(v string) []string { return []string{"max-stale=" + v} }, "304", 20},
		{"req min-fresh", func(string) []string { return []string{"max-age=100"} }, func(v string) []string { return []string{"min-fresh=" + v} }, "304", 0},
		{"req max-age", func(string) []string { return []string{"max-age=2147483648"} }, func(v string) []string { return []string{"max-age=" + v} }, "304", 0},
		{"resp stale-while-revalidate", func(v string) []string { return []string{"max-age=10", "stale-while-revalidate=" + v} }, nil, "304", 20},
		{"resp stale-if-error", func(v string) []string { return []string{"max-age=10", "stale-if-error=" + v} }, nil, "503", 20},
		{"req stale-if-error", func(string) []string { return []string{"max-age=10"} }, func(v string) []string { return []string{"stale-if-error=" + v} }, "503", 20},
	}
	probes := []float64{0, 3600, 365 * 86400, 30 * 365 * 86400, 2147483000 - 31*365*86400 - 3600 - 20}
	idx := 0
	for bi, b := range bases {
		for _, hv := range hugeDeltas {
			i := idx
			idx++
			if !r.Mine(i) {
				continue
			}
			r.Begin(i, map[string]string{"base": b.name, "value": hv})
			mk := func(v string) *c12Base {
				cb := &c12Base{Name: b.name, Status: 200, RespCC: b.resp(v), OnCond: b.onCond}
				dts := append([]float64{b.warm}, probes...)
				for k, dt := range dts {
					st := c12Step{DtS: dt}
					if k > 0 && b.req != nil {
						st.ReqCC = b.req(v)
					}
					cb.Steps = append(cb.Steps, st)
				}
				return cb
			}
			var va, vb []string
			f1 := r.Bubble(func() { va, _ = c12Vector(mk("2147483648"), identity, identity) })
			f2 := r.Bubble(func() { vb, _ = c12Vector(mk(hv), identity, identity) })
			if f1 != "" || f2 != "" {
				r.Violation("bubble", "bubble-failure", f1+f2, nil)
				continue
			}
			r.Nontrivial(fmt.Sprintf("%d|%s", bi, hv))
			if strings.Join(va, "\n") != strings.Join(vb, "\n") {
				diff := ""
				for k := range va {
					if k < len(vb) && va[k] != vb[k] {
						diff += fmt.Sprintf("\n  exchange %d with 2147483648: %s\n  exchange %d with %s: %s", k, va[k], k, hv, vb[k])
					}
				}
				cls := "beyond-int64"
				if len(hv) <= 19 && hv <= "9223372036854775807" {
					cls = "within-int64"
				}
				r.Violation("huge-delta-wraps", fmt.Sprintf("directive=%s,%s", b.name, cls), fmt.Sprintf("%s=%s does not behave like 2147483648:%s", b.name, hv, diff), map[string]any{"ref": va, "huge": vb})
			}
			if r.WantSample() {
				r.Sample(map[string]any{"directive": b.name, "value": hv, "vector": vb})
			}
		}
	}
	r.SetExhaustive(true)
	r.Done()
}
