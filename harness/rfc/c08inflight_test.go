package rfc

import (
	"fmt"
	"net/http"
	"sync/atomic"
	"testing"
	"time"

	"verif/harness/run"
	"verif/harness/sim"
)

// TestC08Inflight: a validation result must not undo a replacement that
// happened while it was in flight. A stale entry is served under
// stale-while-revalidate and its background validation is slow (the origin
// decides on the 304 - or the full reply - when the request arrives); before
// the answer is back the client reloads the resource and gets, and stores, a
// new representation. When the late answer lands, the replaced representation
// must not come back: every later response carries the reload's body (or one
// the origin generated after it), never the original one.
func TestC08Inflight(t *testing.T) {
	r := run.Start(t, "C08", "inflight")
	defer r.Finish()
	type c struct {
		DelayS     float64 `json:"background_delay_s"`
		ReloadAt   float64 `json:"reload_after_s"`
		BgKind     string  `json:"background_reply"`
		Validators string  `json:"validators"`
		Vary       bool    `json:"vary"`
		Via        string  `json:"replaced_via"` // reload (no-cache) | max-age=0
	}
	var cases []c
	for _, d := range []float64{2, 3, 5} {
		for _, at := range []float64{0.5, 1} {
			for _, k := range []string{"304", "200"} {
				for _, v := range []string{"etag", "lm", "both"} {
					for _, vy := range []bool{false, true} {
						for _, via := range []string{"no-cache", "max-age=0"} {
							cases = append(cases, c{d, at, k, v, vy, via})
						}
					}
				}
			}
		}
	}
	r.SetExhaustive(true)
	for i, cs := range cases {
		if !r.Mine(i) {
			continue
		}
		r.Begin(i, cs)
		fail := r.Bubble(func() {
			var changed atomic.Bool
			w := sim.NewWorld(sim.WorldOpt{Handler: func(uc *sim.UpCall, req *http.Request) *sim.Reply {
				gen := "1"
				if changed.Load() {
					gen = "2"
				}
				rs := RespSpec{Status: 200, CC: []string{"max-age=5, stale-while-revalidate=100000"}, BodySize: 14, Extra: map[string][]string{"X-Gen": {gen}}}
				if cs.Vary {
					rs.Vary = []string{"X-A"}
				}
				if cs.Validators != "lm" {
					rs.ETag = `"g` + gen + `"`
				}
				if cs.Validators != "etag" {
					rs.LastMod = map[string]string{"1": "-5000", "2": "-10"}[gen]
				}
				if uc.Background {
					rs.DelayS = cs.DelayS
					if cs.BgKind == "304" && uc.Conditional() && !changed.Load() {
						rs.Status, rs.BodySize = 304, 0
					}
				} else if uc.Conditional() && !changed.Load() {
					rs.Status, rs.BodySize = 304, 0
				}
				return Render(&rs, uc.Enter, uc.Serial)
			}})
			defer w.Close()
			defer w.Settle(nil, 20*time.Second) // whatever is still in flight finishes inside the bubble
			const url = "http://a.example/c8i"
			h := func(cc string) map[string][]string {
				m := map[string][]string{}
				if cs.Vary {
					m["X-A"] = []string{"a"}
				}
				if cc != "" {
					m["Cache-Control"] = []string{cc}
				}
				return m
			}
			first := w.Do(sim.ReqSpec{URL: url, Header: h("")})
			oldBody := first.BodySerial()
			time.Sleep(7 * time.Second)
			a := w.Do(sim.ReqSpec{URL: url, Header: h(""), NoWait: true})
			if !a.FromStore() || len(a.Calls()) != 0 {
				r.Count("not_served_stale", 1)
				return
			}
			time.Sleep(time.Duration(cs.ReloadAt * float64(time.Second)))
			changed.Store(true) // the origin now holds generation 2
			rl := w.Do(sim.ReqSpec{URL: url, Header: h(cs.Via)})
			newBody := rl.BodySerial()
			if newBody == "" || newBody == oldBody {
				r.Count("reload_did_not_fetch_a_new_body", 1)
				return
			}
			time.Sleep(time.Duration((cs.DelayS + 1) * float64(time.Second)))
			w.Settle(a, 0)
			sig := fmt.Sprintf("bg=%s,validators=%s,vary=%v,via=%s", cs.BgKind, cs.Validators, cs.Vary, cs.Via)
			for k, cc := range []string{"", "only-if-cached", "", "max-stale"} {
				ex := w.Do(sim.ReqSpec{URL: url, Header: h(cc)})
				r.AddEvaluations(1)
				if ex.Header != nil && ex.BodySerial() == oldBody {
					r.Violation("replaced-representation-served", sig, fmt.Sprintf("request %d after the late background reply got the representation that a reload had replaced while the validation was in flight (body %s, X-Gen %s, ETag %s); %s", k, oldBody, ex.Header.Get("X-Gen"), ex.Header.Get("Etag"), ex.Summary()), exSummaries(w))
				}
				if ex.Header != nil && ex.Header.Get("X-Gen") == "1" && ex.BodySerial() != "" && ex.BodySerial() != oldBody {
					r.Violation("older-full-reply-over-newer", sig, fmt.Sprintf("the late full reply of the background validation (generation 1, requested before the reload) replaced the representation the reload had stored (generation 2); %s", ex.Summary()), exSummaries(w))
				}
				if mb := w.Call(ex.BodySerial()); ex.Header != nil && mb != nil && mb.Reply != nil && mb.Reply.Header.Get("X-Gen") != ex.Header.Get("X-Gen") {
					// (a 304 is only ever about the generation it was asked about)
					r.Violation("header-not-updated", sig+",header-block-of-another-generation", fmt.Sprintf("a body of generation %s is served under a header block of generation %s; %s", mb.Reply.Header.Get("X-Gen"), ex.Header.Get("X-Gen"), ex.Summary()), exSummaries(w))
				}
				time.Sleep(time.Second)
			}
			r.Count("overlaps_judged", 1)
			r.Nontrivial(fmt.Sprintf("%+v", cs))
			if r.WantSample() {
				r.Sample(map[string]any{"case": cs, "history": exSummaries(w)})
			}
		})
		if fail != "" {
			r.Violation("bubble", "bubble-failure", "bubble failed: "+firstLine(fail), cs)
		}
	}
	r.Done()
}
