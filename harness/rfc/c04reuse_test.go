package rfc

import (
	"fmt"
	"math/rand/v2"
	"net/http"
	"testing"
	"time"

	"verif/harness/mon"
	"verif/harness/run"
	"verif/harness/sim"
)

// TestC04Reuse: variants while the caller re-targets its request object. A
// stale variant is served under stale-while-revalidate and its background
// validation is slow; the caller closes the body and - as the RoundTripper
// contract allows - sets another value of the nominated header on the same
// request object (or sends it again as is). Whatever the background exchange
// stores must be filed under the value it was fetched with: afterwards every
// variant value is requested and judged by the C04 monitor (the request that
// fetched the body vs the current request on every nominated field).
type c04ReuseCase struct {
	Field      string   `json:"field"`
	Values     []string `json:"values"`
	Validators string   `json:"validators"`       // none | etag | lm
	BgReply    string   `json:"background_reply"` // 200 | 304
	DelayS     float64  `json:"background_delay_s"`
	Retarget   int      `json:"retarget_to_value"`
	Resend     bool     `json:"resend_reused_request"`
}

func genC04Reuse(r *rand.Rand) c04ReuseCase {
	c := c04ReuseCase{Field: pick(r, []string{"X-A", "Accept-Language", "Accept-Encoding", "User-Agent"}), Validators: pick(r, []string{"none", "none", "etag", "lm"}),
		BgReply: pick(r, []string{"200", "200", "304"}), DelayS: pick(r, []float64{0, 1, 3}), Resend: chance(r, 0.5)}
	pool := []string{"en", "de", "fr", "gzip", "br"}
	r.Shuffle(len(pool), func(i, j int) { pool[i], pool[j] = pool[j], pool[i] })
	c.Values = pool[:2+r.IntN(2)]
	c.Retarget = 1 + r.IntN(len(c.Values)-1)
	if c.Validators == "none" {
		c.BgReply = "200"
	}
	return c
}

func TestC04Reuse(t *testing.T) {
	r := run.Start(t, "C04", "reuse")
	defer r.Finish()
	n := r.Tiered(600, 20000)
	for i := 0; i < n; i++ {
		if !r.Mine(i) {
			continue
		}
		c := genC04Reuse(r.Rand(i))
		r.Begin(i, c)
		if fail := r.Bubble(func() { c04ReuseRun(r, c) }); fail != "" {
			r.Violation("bubble", "bubble-failure", "bubble failed: "+fail, c)
		}
	}
	r.Done()
}

func c04ReuseRun(r *run.Runner, c c04ReuseCase) {
	w := sim.NewWorld(sim.WorldOpt{Handler: func(uc *sim.UpCall, req *http.Request) *sim.Reply {
		rs := RespSpec{Status: 200, CC: []string{"max-age=5, stale-while-revalidate=100000"}, Vary: []string{c.Field}, BodySize: 12,
			Extra: map[string][]string{"X-Made-For": {req.Header.Get(c.Field)}}}
		switch c.Validators {
		case "etag":
			rs.ETag = `"` + req.Header.Get(c.Field) + `"`
		case "lm":
			rs.LastMod = "-1000"
		}
		if uc.Background {
			rs.DelayS = c.DelayS
			if c.BgReply == "304" && uc.Conditional() {
				rs.Status, rs.BodySize = 304, 0
			}
		}
		return Render(&rs, uc.Enter, uc.Serial)
	}})
	defer w.Close()
	const url = "http://a.example/c04r"
	h := func(v string) map[string][]string { return map[string][]string{c.Field: {v}} }
	judge := func(ex *sim.Exchange) {
		r.AddEvaluations(1)
		in := mon.Classify(w, ex)
		vs, a := mon.C04(w, in)
		if a {
			r.Count("from_store_with_vary", 1)
		}
		for _, v := range vs {
			r.Violation(v.Clause, v.Sig+",reuse", v.Msg, exSummaries(w))
		}
		if ex.Header != nil && in.FromStore && ex.Header.Get("X-Made-For") != http.Header(ex.Spec.Header).Get(c.Field) {
			r.Violation("variant-mismatch", "made-for,reuse", fmt.Sprintf("request with %s: %q answered from the store with the representation made for %q; %s", c.Field, http.Header(ex.Spec.Header).Get(c.Field), ex.Header.Get("X-Made-For"), ex.Summary()), exSummaries(w))
		}
	}
	for _, v := range c.Values {
		judge(w.Do(sim.ReqSpec{URL: url, Header: h(v)}))
	}
	time.Sleep(7 * time.Second) // stale, inside the window
	spec := sim.ReqSpec{URL: url, Header: h(c.Values[0]), NoWait: true, ReuseHeader: h(c.Values[c.Retarget])}
	a := w.Do(spec)
	judge(a)
	if len(a.Calls()) == 0 && a.FromStore() {
		r.Count("served_stale_then_retargeted", 1)
		r.Nontrivial(fmt.Sprintf("%+v", c))
	}
	if c.Resend {
		judge(w.Do(sim.ReqSpec{URL: url, Header: h(c.Values[c.Retarget])}))
	}
	time.Sleep(time.Duration((c.DelayS + 1) * float64(time.Second)))
	w.Settle(a, 0)
	for round := 0; round < 2; round++ {
		for _, v := range c.Values {
			judge(w.Do(sim.ReqSpec{URL: url, Header: h(v)}))
		}
		time.Sleep(time.Second)
	}
	w.Settle(nil, 10*time.Second) // background validations started by the probes finish
	if r.WantSample() {
		r.Sample(map[string]any{"case": c, "history": exSummaries(w)})
	}
}
