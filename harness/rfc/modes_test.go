package rfc

import (
	"context"
	"fmt"
	"io"
	"net/http"
	"sort"
	"strings"
	"sync"
	"sync/atomic"
	"testing"
	"testing/synctest"
	"time"

	"github.com/bartventer/httpcache"

	"verif/harness/run"
	"verif/harness/sim"
)

// Mode S: a deterministic gate scheduler. Inside a bubble every store
// operation and every origin call blocks at a gate; the scheduler waits until
// all other goroutines are durably blocked (synctest.Wait), releases exactly
// one gate according to a schedule vector, and repeats. All interleavings of
// two requests at store/origin-operation granularity are enumerated by DFS
// over the vectors (background revalidations are schedulable actors too).

type msWaiter struct {
	actor, what string
	ch          chan struct{}
}

type msSched struct {
	mu      sync.Mutex
	on      bool
	waiting []*msWaiter
	names   map[uint64]string
	nbg     int
	trace   []string
}

func (g *msSched) gate(what string) {
	g.mu.Lock()
	if !g.on {
		g.mu.Unlock()
		return
	}
	id := sim.Goid()
	name, ok := g.names[id]
	if !ok {
		name = fmt.Sprintf("bg%d", g.nbg)
		g.nbg++
		g.names[id] = name
	}
	w := &msWaiter{actor: name, what: what, ch: make(chan struct{})}
	g.waiting = append(g.waiting, w)
	g.mu.Unlock()
	<-w.ch
}

// msReq is one element of the scenario alphabet.
type msReq struct {
	Name   string
	Method string
	Path   string
	XA     string
	CC     string
	NV     bool // the origin answers this request with another Vary field than before
}

var msAlphabet = []msReq{
	{"hit-a", "GET", "/a", "", "", false},
	{"swr-b-304", "GET", "/b", "", "", false},
	{"swr-b2-200", "GET", "/b2", "", "", false},
	{"reval-c-304", "GET", "/c", "", "", false},
	{"replace-d-200", "GET", "/d", "", "", false},
	{"miss-e", "GET", "/e", "", "", false},
	{"post-a", "POST", "/a", "", "", false},
	{"post-b", "POST", "/b", "", "", false},
	{"variant-v-a", "GET", "/v", "a", "", false},
	{"variant-v-new", "GET", "/v", "c", "", false},
	{"reload-a", "GET", "/a", "", "no-cache", false},
	{"oic-b", "GET", "/b", "", "only-if-cached", false},
	{"post-v", "DELETE", "/v", "", "", false},
	{"swr-v-b", "GET", "/v", "b", "", false},
	{"variant-v-new2", "GET", "/v", "d", "", false},
	{"reval-v-e-304", "GET", "/v", "e", "", false},
	{"post-c", "POST", "/c", "", "", false},
	{"put-d", "PUT", "/d", "", "", false},
	{"reload-b", "GET", "/b", "", "no-cache", false},
	{"reload-c", "GET", "/c", "", "no-cache", false},
	{"reload-v-e", "GET", "/v", "e", "no-cache", false},
	{"reload-v-e-newvary", "GET", "/v", "e", "no-cache", true},
}

// msKeyPairs are always part of the quick tier: overlapping stores of two
// variants, validations (foreground and background) overlapping a store or an
// invalidation of the same resource.
var msKeyPairs = [][2]string{
	{"variant-v-new", "variant-v-new2"}, {"reval-v-e-304", "variant-v-new"}, {"swr-v-b", "variant-v-new"},
	{"reval-c-304", "post-c"}, {"swr-b-304", "post-b"}, {"replace-d-200", "put-d"}, {"reval-v-e-304", "post-v"}, {"swr-v-b", "post-v"},
	{"swr-b-304", "reload-b"}, {"reval-v-e-304", "reload-v-e"}, {"reval-v-e-304", "reload-v-e-newvary"}, {"reval-c-304", "reload-c"},
}

type msResult struct {
	req     msReq
	status  int
	header  http.Header
	headerQ http.Header
	body    []byte
	err     error
	panicv  string
	resp    *http.Response
	snap    sim.ReqSnap
	snapQ   sim.ReqSnap
}

// msRunSchedule executes one schedule vector; it returns the branching factors
// seen at every decision, the trace and the results.
func msRunSchedule(reqs []msReq, vec []int) (branch []int, trace []string, results []*msResult, final map[string]string, fail string) {
	g := &msSched{names: map[uint64]string{}}
	epoch := time.Now()
	origin := &sim.Origin{Gate: g.gate}
	prepop := true
	origin.Handler = func(uc *sim.UpCall, req *http.Request) *sim.Reply {
		res := req.URL.Path + "|" + req.Header.Get("X-A")
		extra := map[string][]string{"X-Res": {res}}
		if req.Method != "GET" {
			return Render(&RespSpec{Status: 200, BodySize: 2, Extra: extra}, uc.Enter, uc.Serial)
		}
		gen := "new"
		if prepop {
			gen = "old"
		}
		// a reload is answered with a new full representation, whatever
		// validators the cache added to it
		reload := strings.Contains(req.Header.Get("Cache-Control"), "no-cache")
		extra["X-Gen"] = []string{gen}
		etag := `"` + res + `"`
		rs := RespSpec{Status: 200, ETag: etag, BodySize: 30, Extra: extra}
		switch req.URL.Path {
		case "/a", "/e":
			rs.CC = []string{"max-age=100000"}
		case "/b":
			rs.CC = []string{"max-age=10, stale-while-revalidate=100000"}
			if uc.Conditional() && !reload {
				return Render(&RespSpec{Status: 304, ETag: etag, Extra: extra}, uc.Enter, uc.Serial)
			}
		case "/b2":
			rs.CC = []string{"max-age=10, stale-while-revalidate=100000"}
		case "/c":
			rs.CC = []string{"max-age=10"}
			if uc.Conditional() && !reload {
				return Render(&RespSpec{Status: 304, ETag: etag, CC: []string{"max-age=100000"}, Extra: extra}, uc.Enter, uc.Serial)
			}
		case "/d":
			rs.CC = []string{"max-age=10"}
		case "/v":
			rs.Vary = []string{"X-A"}
			rs.CC = []string{"max-age=100000"}
			if req.Header.Get("X-A") == "b" {
				rs.CC = []string{"max-age=10, stale-while-revalidate=100000"}
				if uc.Conditional() && !reload {
					return Render(&RespSpec{Status: 304, ETag: etag, Vary: []string{"X-A"}, Extra: extra}, uc.Enter, uc.Serial)
				}
			}
			if req.Header.Get("X-A") == "e" {
				rs.CC = []string{"max-age=10"}
				if req.Header.Get("X-Nv") != "" {
					rs.Vary = []string{"X-B"} // the representation now varies on another field
				}
				if uc.Conditional() && !reload {
					return Render(&RespSpec{Status: 304, ETag: etag, Vary: []string{"X-A"}, CC: []string{"max-age=100000"}, Extra: extra}, uc.Enter, uc.Serial)
				}
			}
		}
		_ = epoch
		return Render(&rs, uc.Enter, uc.Serial)
	}
	store := sim.NewRecStore(sim.NewMapConn())
	store.Silent = true
	store.Gate = func(op, key string) {
		k := key
		if i := strings.Index(k, "a.example"); i >= 0 {
			k = k[i+9:]
		}
		g.gate("store " + op + " " + k)
	}
	dsn, release := sim.RegisterConn(store)
	defer release()
	rt := httpcache.NewTransport(dsn, httpcache.WithUpstream(origin))
	var exID atomic.Int64 // exchange ids: below 100 = pre-population (their bodies are the old generation)
	do := func(r msReq, res *msResult) {
		req, _ := http.NewRequestWithContext(sim.WithExchange(context.Background(), &sim.Exchange{ID: int(exID.Add(1))}), r.Method, "http://a.example"+r.Path, nil)
		if r.XA != "" {
			req.Header.Set("X-A", r.XA)
		}
		if r.CC != "" {
			req.Header.Set("Cache-Control", r.CC)
		}
		if r.NV {
			req.Header.Set("X-Nv", "1")
		}
		if res != nil {
			res.snap = snapRequest(req)
		}
		var resp *http.Response
		var err error
		func() {
			defer func() {
				if p := recover(); p != nil && res != nil {
					res.panicv = fmt.Sprint(p)
				}
			}()
			resp, err = rt.RoundTrip(req)
		}()
		if res == nil {
			if resp != nil {
				io.Copy(io.Discard, resp.Body)
			}
			return
		}
		res.err = err
		if resp != nil {
			res.resp = resp
			res.status = resp.StatusCode
			res.header = resp.Header.Clone()
			res.body, _ = io.ReadAll(resp.Body)
			resp.Body.Close()
		}
		res.snapQ = snapRequest(req)
	}
	// pre-populate sequentially (gates off), then let the short-lived entries go stale
	for _, r := range []msReq{{"", "GET", "/a", "", "", false}, {"", "GET", "/b", "", "", false}, {"", "GET", "/b2", "", "", false}, {"", "GET", "/c", "", "", false}, {"", "GET", "/d", "", "", false},
		{"", "GET", "/v", "a", "", false}, {"", "GET", "/v", "b", "", false}, {"", "GET", "/v", "e", "", false}} {
		do(r, nil)
	}
	prepop = false
	exID.Store(100)
	time.Sleep(20 * time.Second)
	synctest.Wait()
	// clients, started one at a time so that their names are stable
	g.mu.Lock()
	g.on = true
	g.mu.Unlock()
	var wg sync.WaitGroup
	doneCount := 0
	var dmu sync.Mutex
	for i, r := range reqs {
		res := &msResult{req: r}
		results = append(results, res)
		wg.Add(1)
		started := make(chan struct{})
		go func(i int) {
			defer wg.Done()
			g.mu.Lock()
			g.names[sim.Goid()] = fmt.Sprintf("c%d", i)
			g.mu.Unlock()
			close(started)
			do(reqs[i], res)
			dmu.Lock()
			doneCount++
			dmu.Unlock()
		}(i)
		<-started
		synctest.Wait()
	}
	// the scheduler
	step := 0
	idle := 0
	for guard := 0; guard < 2000; guard++ {
		synctest.Wait()
		g.mu.Lock()
		ws := g.waiting
		if len(ws) == 0 {
			g.mu.Unlock()
			dmu.Lock()
			d := doneCount
			dmu.Unlock()
			if d == len(reqs) && idle >= 2 {
				break
			}
			idle++
			time.Sleep(10 * time.Second) // let timers (background timeouts) fire
			continue
		}
		idle = 0
		sort.SliceStable(ws, func(i, j int) bool { return ws[i].actor+" "+ws[i].what < ws[j].actor+" "+ws[j].what })
		choice := 0
		if step < len(vec) {
			choice = vec[step]
		}
		if choice >= len(ws) {
			choice %= len(ws) // sampled vectors (triples) carry arbitrary numbers
		}
		branch = append(branch, len(ws))
		w := ws[choice]
		g.waiting = append(append([]*msWaiter(nil), ws[:choice]...), ws[choice+1:]...)
		trace = append(trace, w.actor+": "+w.what)
		g.mu.Unlock()
		close(w.ch)
		step++
	}
	wg.Wait()
	g.mu.Lock()
	g.on = false
	for _, w := range g.waiting {
		close(w.ch)
	}
	g.waiting = nil
	g.mu.Unlock()
	time.Sleep(30 * time.Second)
	synctest.Wait()
	for _, res := range results {
		if res.resp != nil {
			res.headerQ = res.resp.Header.Clone()
		}
	}
	// final sequential probe of every resource: what does the cache serve now?
	final = map[string]string{}
	for _, r := range []msReq{{"", "GET", "/a", "", "", false}, {"", "GET", "/b", "", "only-if-cached", false}, {"", "GET", "/v", "a", "only-if-cached", false}, {"", "GET", "/v", "b", "only-if-cached", false}, {"", "GET", "/v", "c", "only-if-cached", false}, {"", "GET", "/e", "", "only-if-cached", false},
		{"", "GET", "/v", "d", "only-if-cached", false}, {"", "GET", "/v", "e", "only-if-cached", false}, {"", "GET", "/c", "", "only-if-cached", false}, {"", "GET", "/d", "", "only-if-cached", false}, {"", "GET", "/b2", "", "only-if-cached", false}} {
		res := &msResult{req: r}
		do(r, res)
		gen, xres, st := "", "", ""
		if res.header != nil {
			gen, xres, st = res.header.Get("X-Gen"), res.header.Get("X-Res"), res.header.Get("X-Httpcache-Status")
		}
		bodyGen := "none"
		if bi := sim.ParseBody(res.body); bi.HasTok {
			// bodies made by the pre-population calls are the old generation
			bodyGen = "new"
			var ex, idx int
			if n, _ := fmt.Sscanf(bi.Serial, "%d.%d", &ex, &idx); n == 2 && ex < 100 {
				bodyGen = "old"
			}
		}
		final[r.Path+"|"+r.XA] = fmt.Sprintf("%d %s gen=%s body=%s res=%s intact=%v", res.status, st, gen, bodyGen, xres, sim.ParseBody(res.body).Intact || res.status == 504)
	}
	return
}

func snapRequest(r *http.Request) sim.ReqSnap {
	s := sim.ReqSnap{Method: r.Method, Host: r.Host, URL: r.URL.String(), Header: map[string][]string{}}
	for k, v := range r.Header {
		s.Header[k] = append([]string(nil), v...)
	}
	return s
}

func TestC16ModeS(t *testing.T) {
	r := run.Start(t, "C16", "mode-s")
	defer r.Finish()
	type pair struct{ a, b int }
	var pairs []pair
	for i := range msAlphabet {
		for j := i; j < len(msAlphabet); j++ {
			pairs = append(pairs, pair{i, j})
		}
	}
	maxSched := r.Tiered(400, 20000)
	if !r.Thorough() {
		// quick: 20 seeded pairs
		rng := r.Rand(0)
		rng.Shuffle(len(pairs), func(i, j int) { pairs[i], pairs[j] = pairs[j], pairs[i] })
		pairs = pairs[:14]
		byName := map[string]int{}
		for i, a := range msAlphabet {
			byName[a.Name] = i
		}
		for _, kp := range msKeyPairs {
			pairs = append(pairs, pair{byName[kp[0]], byName[kp[1]]})
		}
	}
	r.SetExhaustive(false)
	for pi, p := range pairs {
		if !r.Mine(pi) {
			continue
		}
		reqs := []msReq{msAlphabet[p.a], msAlphabet[p.b]}
		r.Begin(pi, map[string]string{"first": reqs[0].Name, "second": reqs[1].Name})
		vec := []int{}
		nsched := 0
		exhausted := false
		distinctTraces := map[string]bool{}
		for nsched < maxSched {
			var branch []int
			var trace []string
			var results []*msResult
			var final map[string]string
			fail := r.Bubble(func() { branch, trace, results, final, _ = msRunSchedule(reqs, vec) })
			nsched++
			r.AddEvaluations(1)
			distinctTraces[strings.Join(trace, ";")] = true
			sig := reqs[0].Name + "+" + reqs[1].Name
			if fail != "" {
				r.Violation("hang", sig, "schedule did not finish cleanly: "+firstLine(fail)+" trace: "+strings.Join(trace, " ; "), nil)
			}
			msJudge(r, sig, reqs, results, final, trace)
			// next vector (DFS odometer)
			cur := make([]int, len(branch))
			copy(cur, vec)
			k := len(cur) - 1
			for k >= 0 && cur[k]+1 >= branch[k] {
				k--
			}
			if k < 0 {
				exhausted = true
				break
			}
			cur[k]++
			vec = cur[:k+1]
		}
		r.Count("schedules", nsched)
		r.Count("distinct_traces", len(distinctTraces))
		if exhausted {
			r.Count("pairs_enumerated_exhaustively", 1)
		} else {
			r.Count("pairs_capped", 1)
		}
		r.Nontrivial(fmt.Sprintf("%s+%s/%d", reqs[0].Name, reqs[1].Name, len(distinctTraces)))
		if r.WantSample() {
			var one []string
			for tr := range distinctTraces {
				one = strings.Split(tr, ";")
				break
			}
			r.Sample(map[string]any{"pair": []string{reqs[0].Name, reqs[1].Name}, "schedules": nsched, "distinct_interleavings": len(distinctTraces), "exhaustive": exhausted, "one_interleaving": one})
		}
	}
	// sampled triples under pseudo-random schedule vectors
	{
		ntr := r.Tiered(32, 800)
		per := r.Tiered(60, 400)
		for ti := 0; ti < ntr; ti++ {
			idx := 1000 + ti
			if !r.Mine(idx) {
				continue
			}
			rng := r.Rand(idx)
			reqs := []msReq{pick(rng, msAlphabet), pick(rng, msAlphabet), pick(rng, msAlphabet)}
			sig := reqs[0].Name + "+" + reqs[1].Name + "+" + reqs[2].Name
			r.Begin(idx, map[string]string{"triple": sig})
			distinct := map[string]bool{}
			for k := 0; k < per; k++ {
				vec := make([]int, 96)
				for i := range vec {
					vec[i] = rng.IntN(720720)
				}
				var trace []string
				var results []*msResult
				var final map[string]string
				fail := r.Bubble(func() { _, trace, results, final, _ = msRunSchedule(reqs, vec) })
				r.AddEvaluations(1)
				distinct[strings.Join(trace, ";")] = true
				if fail != "" {
					r.Violation("hang", sig, "schedule did not finish cleanly: "+firstLine(fail)+" trace: "+strings.Join(trace, " ; "), nil)
				}
				msJudge(r, sig, reqs, results, final, trace)
			}
			r.Count("triples_sampled", 1)
			r.Count("triple_schedules", per)
			r.Count("triple_distinct_traces", len(distinct))
			r.Nontrivial(fmt.Sprintf("%s/%d", sig, len(distinct)))
		}
	}
	r.Done()
}

func msJudge(r *run.Runner, sig string, reqs []msReq, results []*msResult, final map[string]string, trace []string) {
	tr := strings.Join(trace, " ; ")
	postDone := map[string]bool{}
	replacedKey := map[string]bool{}
	// a reply that changes the resource's Vary field may legitimately be
	// selected for other X-A values afterwards: "which variant" is not judged
	// for that path in such a tuple
	varyChanged := map[string]bool{}
	for _, q := range reqs {
		if q.NV {
			varyChanged[q.Path] = true
		}
	}
	for _, res := range results {
		q := res.req
		if res.panicv != "" {
			r.Violation("panic", sig, "RoundTrip panicked under schedule ["+tr+"]: "+res.panicv, nil)
			continue
		}
		if res.err != nil || res.header == nil {
			r.Violation("error", sig, fmt.Sprintf("%s failed under schedule [%s]: %v", q.Name, tr, res.err), nil)
			continue
		}
		if q.Method != "GET" && res.status >= 200 && res.status < 400 {
			postDone[q.Path] = true
		}
		if q.Method == "GET" && q.CC == "no-cache" && res.status == 200 && res.header.Get("X-Httpcache-Status") == "MISS" {
			// a reload fetched and stored a new representation: the one it
			// replaced must not come back either
			replacedKey[q.Path+"|"+q.XA] = true
		}
		want := q.Path + "|" + q.XA
		if res.status != 504 && res.header.Get("X-Res") != want && !varyChanged[q.Path] {
			r.Violation("wrong-resource", sig, fmt.Sprintf("%s got a response for %q under schedule [%s]", q.Name, res.header.Get("X-Res"), tr), nil)
		}
		if q.Method == "GET" && res.status == 200 && !sim.ParseBody(res.body).Intact {
			r.Violation("body-damaged", sig, fmt.Sprintf("%s got a damaged body (%d bytes) under schedule [%s]", q.Name, len(res.body), tr), nil)
		}
		if d := sim.HeaderDiff(res.header, res.headerQ); d != "" {
			r.Violation("header-changed-after-return", sig, fmt.Sprintf("%s: returned header map changed after return (%s) under schedule [%s]", q.Name, d, tr), nil)
		}
		if d := res.snap.Diff(res.snapQ); d != "" {
			r.Violation("request-mutated", sig, fmt.Sprintf("%s: request changed (%s) under schedule [%s]", q.Name, d, tr), nil)
		}
	}
	// after everything is quiet: a response stored before a successful unsafe
	// request of this pair must not be served again, and what is served is intact
	for key, v := range final {
		path := key[:strings.IndexByte(key, '|')]
		if strings.Contains(v, "intact=false") {
			r.Violation("stored-body-damaged", sig, fmt.Sprintf("after schedule [%s] the store serves a damaged body for %s: %s", tr, key, v), nil)
		}
		if !strings.HasPrefix(v, "504") && !strings.Contains(v, "res="+key) && !varyChanged[path] {
			r.Violation("stored-wrong-resource", sig, fmt.Sprintf("after schedule [%s] the store serves %s for %s", tr, v, key), nil)
		}
		if replacedKey[key] && strings.Contains(v, "body=old") && !strings.HasPrefix(v, "504") {
			r.Violation("replaced-entry-back", sig, fmt.Sprintf("after schedule [%s] the representation of %s that a reload of the tuple replaced is served again: %s", tr, key, v), nil)
		}
		if postDone[path] && (strings.Contains(v, "gen=old") || strings.Contains(v, "body=old")) && !strings.HasPrefix(v, "504") {
			r.Violation("invalidated-entry-back", sig, fmt.Sprintf("after schedule [%s] a response stored before the successful unsafe request to %s is served again unvalidated: %s", tr, path, v), nil)
		}
	}
	// what a request of the tuple fetched from the origin and stored is still
	// there afterwards, unless an unsafe request of the tuple hit the resource
	for _, res := range results {
		q := res.req
		if q.Method != "GET" || res.header == nil || res.status != 200 || q.CC != "" || postDone[q.Path] {
			continue
		}
		if st := res.header.Get("X-Httpcache-Status"); st != "MISS" {
			continue
		}
		key := q.Path + "|" + q.XA
		if v, ok := final[key]; ok && strings.HasPrefix(v, "504") {
			r.Violation("stored-response-lost", sig, fmt.Sprintf("%s fetched and stored %s (MISS, cacheable for a day) but after schedule [%s] it is no longer in the store: %s", q.Name, key, tr, v), nil)
		}
	}
	// entries that were in the store before and that no request of the tuple
	// replaced or invalidated are still there (another variant's index update
	// must not drop them)
	touched := map[string]bool{}
	for _, q := range reqs {
		touched[q.Path] = touched[q.Path] || q.Method != "GET"
	}
	for _, key := range []string{"/v|a", "/a|"} {
		path := key[:strings.IndexByte(key, '|')]
		if v, ok := final[key]; ok && !touched[path] && strings.HasPrefix(v, "504") {
			r.Violation("stored-response-lost", sig+",bystander", fmt.Sprintf("after schedule [%s] the long-lived stored response %s, which no request of the tuple replaced or invalidated, is gone: %s", tr, key, v), nil)
		}
	}
}
