package rfc

import (
	"fmt"
	"math/rand/v2"
	"testing"

	"verif/harness/mon"
	"verif/harness/run"
	"verif/harness/sim"
)

// TestC18Faults: only-if-cached under store faults. Histories that end in
// only-if-cached requests (alone and with max-stale / min-fresh / no-cache /
// max-age) against every kind of stored state are replayed with each store
// operation in turn failing (before / after taking effect) or returning
// damaged bytes. "Under any circumstances" includes an unreadable store: the
// C18 monitor (no upstream call, foreground or background; a usable stored
// response or the synthesised 504) judges every only-if-cached exchange.
func TestC18Faults(t *testing.T) {
	r := run.Start(t, "C18", "store-faults")
	defer r.Finish()
	oic := []string{"only-if-cached", "only-if-cached, max-stale", "only-if-cached, min-fresh=5", "max-age=0, only-if-cached", "no-cache, only-if-cached", "only-if-cached, max-stale=3"}
	var bases []FuzzCase
	for bi, b := range c10Bases() {
		// the scripted history, then only-if-cached requests right away and after the entry went stale
		b.Steps = append(b.Steps,
			FuzzStep{DtS: 1, Header: map[string][]string{"Cache-Control": {oic[bi%len(oic)]}}},
			FuzzStep{DtS: 30, Header: map[string][]string{"Cache-Control": {oic[(bi+1)%len(oic)]}}},
			FuzzStep{DtS: 0, Header: map[string][]string{"Cache-Control": {oic[(bi+2)%len(oic)]}, "X-A": {"2"}}})
		bases = append(bases, b)
	}
	nRandom := r.Tiered(8, 150)
	for i := 0; i < nRandom; i++ {
		rng := rand.New(rand.NewPCG(uint64(r.Seed), uint64(i)+1877))
		fc := genFuzzCase(rng, "C18")
		if len(fc.Steps) > 12 {
			fc.Steps = fc.Steps[:12]
		}
		bases = append(bases, fc)
	}
	nScripted := len(c10Bases())
	idx := 0
	for bi := range bases {
		n, kinds := c18FaultRun(r, &bases[bi], bi, -1, "", false)
		for j := 0; j < n; j++ {
			for fi, f := range c10Faults {
				if f.Ops != "*" && f.Ops != kinds[j] {
					continue
				}
				if !r.Thorough() && (bi >= nScripted || fi > 1) && (j+fi+bi)%3 != 0 {
					continue // quick: all error faults of the scripted bases, a third of the rest
				}
				i := idx
				idx++
				if !r.Mine(i) {
					continue
				}
				r.Begin(i, map[string]any{"base": bi, "fault_at_store_op": j, "op": kinds[j], "fault": f.Name})
				c18FaultRun(r, &bases[bi], bi, j, f.Name, true)
				r.Count("fault:"+f.Name, 1)
			}
		}
	}
	r.Done()
}

func c18FaultRun(r *run.Runner, base *FuzzCase, bi, at int, fname string, judge bool) (nops int, kinds []string) {
	r.Bubble(func() {
		w := runFuzzCaseWith(base, sim.WorldOpt{}, func(w *sim.World) {
			w.Store.Plan = func(seq int, op, key string) *sim.Fault {
				if seq != at {
					return nil
				}
				for _, f := range c10Faults {
					if f.Name == fname && (f.Ops == "*" || f.Ops == op) {
						var orig []byte
						if op == "get" {
							orig, _ = w.Store.Inner.Get(key)
						}
						return f.Make(orig)
					}
				}
				return nil
			}
		}, func(w *sim.World, in *mon.Info, invs []*mon.Invalidation) {
			r.AddEvaluations(1)
			if !judge {
				return
			}
			vs, ante := mon.C18(in)
			if !ante {
				return
			}
			struck := false
			for _, op := range in.Ex.StoreOps {
				if op.Fault != "" {
					struck = true
				}
			}
			r.Count("only_if_cached_exchanges", 1)
			if struck {
				r.Count("only_if_cached_exchanges_struck_by_the_fault", 1)
				r.Nontrivial(fmt.Sprintf("%d|%d|%s|%d", bi, at, fname, in.Ex.ID))
			}
			for _, v := range vs {
				if v.Clause != "origin-contacted" && v.Clause != "no-response" {
					// what is usable after a fault damaged the entry is C10's business
					if struck {
						continue
					}
				}
				r.Violation(v.Clause, v.Sig+",fault="+fname, v.Msg+fmt.Sprintf(" [base %d, fault %s at store op %d]", bi, fname, at), exSummaries(w))
			}
		})
		ops := w.Store.Ops(0)
		nops = len(ops)
		for _, o := range ops {
			kinds = append(kinds, o.Op)
		}
	})
	return
}
