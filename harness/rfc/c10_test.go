package rfc

import (
	"bytes"
	"fmt"
	"io"
	"log/slog"
	"math/rand/v2"
	"net/http"
	"net/url"
	"strings"
	"sync"
	"testing"
	"time"

	"verif/harness/mon"
	"verif/harness/run"
	"verif/harness/sim"
)

// store fault kinds; applicability depends on the operation
type c10Fault struct {
	Name string
	Ops  string // which ops it applies to: "get", "set", "delete", or "*"
	Make func(orig []byte) *sim.Fault
}

func replaceWith(name string, f func(orig []byte) []byte) c10Fault {
	return c10Fault{Name: name, Ops: "get", Make: func(orig []byte) *sim.Fault {
		return &sim.Fault{Name: name, DoReplace: true, Replace: f(orig)}
	}}
}

var c10Faults = []c10Fault{
	{Name: "error-before", Ops: "*", Make: func([]byte) *sim.Fault { return &sim.Fault{Name: "error-before", Err: sim.ErrStore} }},
	{Name: "error-after", Ops: "*", Make: func([]byte) *sim.Fault { return &sim.Fault{Name: "error-after", Err: sim.ErrStore, After: true} }},
	replaceWith("empty", func([]byte) []byte { return []byte{} }),
	replaceWith("truncated-meta", func(o []byte) []byte { return o[:min(len(o), 10)] }),
	replaceWith("truncated-header", func(o []byte) []byte {
		if i := bytes.Index(o, []byte("\r\n")); i > 0 {
			return o[:i+8]
		}
		return o[:len(o)/2]
	}),
	replaceWith("truncated-body", func(o []byte) []byte { return o[:max(len(o)-3, 0)] }),
	replaceWith("garbage", func(o []byte) []byte { return []byte("\x00\xff\x13garbage\n\n\r\n{{{[[") }),
	replaceWith("json-null", func([]byte) []byte { return []byte("null") }),
	replaceWith("json-[null]", func([]byte) []byte { return []byte("[null]") }),
	replaceWith("json-{}", func([]byte) []byte { return []byte("{}") }),
	replaceWith("json-[1]", func([]byte) []byte { return []byte("[1]") }),
	replaceWith("json-[{}]", func([]byte) []byte { return []byte("[{}]") }),
	replaceWith("json-wrong-types", func([]byte) []byte { return []byte(`[{"id":5,"vary":[],"vary_resolved":"x"}]`) }),
	replaceWith("json-dangling-ref", func([]byte) []byte {
		return []byte(`[{"id":"http://a.example/nowhere#0","vary":"","vary_resolved":{}},{"id":"","vary":"*","vary_resolved":null}]`)
	}),
	replaceWith("meta-only", func(o []byte) []byte {
		if i := bytes.IndexByte(o, '\n'); i > 0 {
			return o[:i+1]
		}
		return o
	}),
	replaceWith("bad-times", func(o []byte) []byte {
		if i := bytes.IndexByte(o, '\n'); i > 0 {
			return append([]byte("id\tnot-a-time\t9999-99-99\n"), o[i+1:]...)
		}
		return o
	}),
	replaceWith("flipped-body-byte", func(o []byte) []byte {
		m := append([]byte(nil), o...)
		if len(m) > 0 {
			m[len(m)-1] ^= 0x20
		}
		return m
	}),
	replaceWith("status-line-garbage", func(o []byte) []byte {
		if i := bytes.IndexByte(o, '\n'); i > 0 {
			return append(append([]byte(nil), o[:i+1]...), []byte("HTTP/9.9 abc nonsense\r\n\r\n")...)
		}
		return o
	}),
}

// decodable faults: only the "no panic / no hang / error only from origin" clauses are judged
var c10Decodable = map[string]bool{"flipped-body-byte": true, "bad-times": true, "error-after": true}

// c10Bases: hand-written scenarios covering every path.
func c10Bases() []FuzzCase {
	one := func(rs RespSpec, onCond string, steps ...FuzzStep) FuzzCase {
		at := make([]int, 48)
		return FuzzCase{Resources: []FuzzRes{{Path: "/r0", Epochs: []RespSpec{rs}, EpochAt: at, OnCond: []string{onCond}}, {Path: "/r1", Epochs: []RespSpec{{Status: 200, CC: []string{"max-age=1000"}, BodySize: 5}}, EpochAt: at, OnCond: []string{"304"}}}, Steps: steps}
	}
	g := func(dt float64, cc string, extra ...string) FuzzStep {
		st := FuzzStep{DtS: dt}
		h := map[string][]string{}
		if cc != "" {
			h["Cache-Control"] = []string{cc}
		}
		for i := 0; i+1 < len(extra); i += 2 {
			h[extra[i]] = []string{extra[i+1]}
		}
		if len(h) > 0 {
			st.Header = h
		}
		return st
	}
	m := func(method string) FuzzStep { return FuzzStep{Method: method} }
	base := RespSpec{Status: 200, CC: []string{"max-age=10"}, ETag: `"v0-0"`, LastMod: "-1000", BodySize: 20}
	swr := RespSpec{Status: 200, CC: []string{"max-age=10, stale-while-revalidate=1000"}, ETag: `"v0-0"`, BodySize: 20}
	sie := RespSpec{Status: 200, CC: []string{"max-age=10, stale-if-error=1000"}, ETag: `"v0-0"`, BodySize: 20}
	vary := RespSpec{Status: 200, CC: []string{"max-age=10"}, ETag: `"v0-0"`, Vary: []string{"X-A"}, BodySize: 20}
	slow := swr
	slow.DelayS = 3
	return []FuzzCase{
		one(base, "304", g(0, ""), g(1, ""), g(1, "")),                                                                      // miss-store, hit, hit
		one(base, "304", g(0, ""), g(20, ""), g(1, "")),                                                                     // 304 revalidation, then hit
		one(base, "200", g(0, ""), g(20, ""), g(1, "")),                                                                     // 200 replace
		one(base, "500", g(0, ""), g(20, ""), g(1, "")),                                                                     // 5xx on validation
		one(base, "err", g(0, ""), g(20, ""), g(1, "")),                                                                     // transport error on validation
		one(swr, "304", g(0, ""), g(20, ""), g(1, ""), g(5, "")),                                                            // SWR + background 304
		one(swr, "200", g(0, ""), g(20, ""), g(1, "")),                                                                      // SWR + background 200
		one(swr, "err", g(0, ""), g(20, ""), g(1, "")),                                                                      // SWR + background error
		one(swr, "503", g(0, ""), g(20, ""), g(1, "")),                                                                      // SWR + background 5xx
		one(slow, "304", g(0, ""), g(20, ""), g(0, ""), g(10, "")),                                                          // SWR with a slow origin, overlapping requests
		one(sie, "503", g(0, ""), g(20, ""), g(1, "stale-if-error=5")),                                                      // stale-if-error
		one(sie, "err", g(0, ""), g(20, "")),                                                                                // stale-if-error on transport error
		one(base, "304", g(0, ""), m("POST"), g(1, ""), m("DELETE"), g(0, "")),                                              // invalidation
		one(base, "304", g(0, "only-if-cached"), g(0, ""), g(1, "only-if-cached"), g(20, "only-if-cached")),                 // only-if-cached: empty, fresh, stale
		one(vary, "304", g(0, "", "X-A", "1"), g(0, "", "X-A", "2"), g(1, "", "X-A", "1"), g(20, "", "X-A", "2"), g(1, "")), // Vary
		one(base, "304", g(0, "no-store"), g(0, "no-cache"), g(1, "max-age=0"), g(1, "max-stale=5"), g(30, "max-stale")),    // request directives
		one(RespSpec{Status: 200, CC: []string{"no-cache"}, ETag: `"v0-0"`, BodySize: 9}, "304", g(0, ""), g(1, ""), g(1, "only-if-cached")),
		one(RespSpec{Status: 200, CC: []string{"max-age=10"}, Vary: []string{"*"}, BodySize: 9}, "304", g(0, ""), g(1, ""), g(1, "")),
		one(RespSpec{Status: 200, CC: []string{"max-age=10"}, BodySize: 30, FailBody: true, FailAt: 7}, "304", g(0, ""), g(1, "")), // failing body on the miss path
		one(RespSpec{Status: 301, CC: []string{"max-age=10"}, Extra: map[string][]string{"Location": {"/r1"}}, BodySize: 0, NoBody: true}, "304", g(0, ""), g(1, ""), m("PUT")),
		one(base, "304", g(0, "", "Range", "bytes=0-1"), FuzzStep{Method: "HEAD"}, g(0, ""), g(1, "", "If-None-Match", `"v0-0"`)),
	}
}

type c10Case struct {
	Base   int    `json:"base"`
	Random bool   `json:"random_base,omitempty"`
	Op     int    `json:"fault_at_store_op"`
	Fault  string `json:"fault"`
	Op2    int    `json:"second_fault_at,omitempty"`
	Fault2 string `json:"second_fault,omitempty"`
	Logger string `json:"logger"`
	// the first fault's operation as the fault-free run saw it: with it the
	// fault is placed by (operation, key, occurrence) rather than by position,
	// so that two runs of the same case strike the same logical operation even
	// when the cache issues independent store operations concurrently
	at *c10OpID
}

type c10OpID struct {
	Op, Key string
	Nth     int
}

func c10Vector(w *sim.World) []string {
	var v []string
	for _, ex := range w.Exchanges {
		up := 0
		for _, c := range ex.Calls() {
			_ = c
			up++
		}
		e := ""
		if ex.Err != nil {
			e = "err"
		}
		v = append(v, fmt.Sprintf("%d|%s|%s|%s|%d|%s|%v", ex.Status, ex.CacheStatus(), ex.BodySerial(), ex.XMsg(), up, e, ex.Panic != ""))
	}
	return v
}

// c10RunOnce executes a base with the given faults and judges it.
func c10RunOnce(r *run.Runner, base *FuzzCase, c c10Case, judge bool) (nops int, opIDs []c10OpID, vec []string) {
	var logger *slog.Logger
	if c.Logger == "debug" {
		logger = slog.New(slog.NewJSONHandler(io.Discard, &slog.HandlerOptions{Level: slog.LevelDebug}))
	}
	faults := map[int]string{}
	if c.Fault != "" {
		faults[c.Op] = c.Fault
	}
	if c.Fault2 != "" {
		faults[c.Op2] = c.Fault2
	}
	struck := map[int]string{} // exchange id -> fault name, when the fault struck on the foreground goroutine
	var wref *sim.World
	fail := r.Bubble(func() {
		w := runFuzzCaseWith(base, sim.WorldOpt{Logger: logger}, func(w *sim.World) {
			wref = w
			var planMu sync.Mutex
			seen := map[string]int{}
			w.Store.Plan = func(seq int, op, key string) *sim.Fault {
				planMu.Lock()
				seen[op+"\x00"+key]++
				nth := seen[op+"\x00"+key]
				planMu.Unlock()
				name, ok := faults[seq]
				if c.at != nil {
					// first fault by identity, a second one by position
					name, ok = "", false
					if op == c.at.Op && key == c.at.Key && nth == c.at.Nth {
						name, ok = c.Fault, true
					} else if c.Fault2 != "" && seq == c.Op2 {
						name, ok = c.Fault2, true
					}
				}
				if !ok {
					return nil
				}
				for _, f := range c10Faults {
					if f.Name == name && (f.Ops == "*" || f.Ops == op) {
						var orig []byte
						if op == "get" {
							orig, _ = w.Store.Inner.Get(key)
						}
						return f.Make(orig)
					}
				}
				return nil
			}
		}, func(w *sim.World, in *mon.Info, invs []*mon.Invalidation) {
			ex := in.Ex
			r.AddEvaluations(1)
			if !judge {
				return
			}
			for _, v := range mon.C10Basic(in) {
				r.Violation(v.Clause, v.Sig+",fault="+c.Fault, v.Msg+fmt.Sprintf(" [base %d, fault %s at store op %d, logger %s]", c.Base, c.Fault, c.Op, c.Logger), exSummaries(w))
			}
			// did a fault strike this exchange before the foreground result?
			fname := ""
			anyDecodable := false
			for _, op := range ex.StoreOps {
				if op.Fault != "" && op.Fg {
					fname = op.Fault
					anyDecodable = anyDecodable || c10Decodable[op.Fault]
				}
			}
			if fname == "" {
				return
			}
			struck[ex.ID] = fname
			r.Count("foreground_faults_judged", 1)
			if c10Decodable[fname] || anyDecodable {
				// (pairs: once a fault whose result still decodes has struck, what
				// the entry "is" - even its id - is whatever those bytes say; only
				// the no-panic / no-hang / error clauses are judged)
				return
			}
			if ex.Panic != "" || ex.Header == nil {
				return // already reported / error judged by the basic monitor
			}
			oic := in.ReqCC.Has("only-if-cached") && (ex.Spec.Method == "" || ex.Spec.Method == "GET") && http.Header(ex.Spec.Header).Get("Range") == ""
			own := ex.BodySerial() != "" && ex.OwnSerial(ex.BodySerial()) || ex.BodySerial() == "" && ex.XMsg() != "" && ex.OwnSerial(ex.XMsg())
			switch {
			case oic && ex.Status == 504 && len(ex.Calls()) == 0:
			case oic && in.FromStore:
				// another, intact entry may still be usable
			case own:
				if bi := sim.ParseBody(ex.Body); bi.HasTok && !bi.Intact && ex.BodyErr == "" {
					r.Violation("origin-reply-damaged", "fault="+fname, "after a store fault the client did not receive the origin's intact reply; "+ex.Summary(), exSummaries(w))
				}
			case in.FromStore && (fname == "error-before" || fname == "error-after") && faultOnWriteOnly(ex):
				// the fault hit a write or delete after the lookup had succeeded
			case in.FromStore && fname == "truncated-body" && closeDelimitedFault(ex):
				// a close-delimited entry (HTTP/1.0 origin, no length, not chunked) that
				// lost its tail still decodes - as a shorter response; nothing in the
				// stored bytes says so. Only the no-panic / no-hang clauses apply.
				r.Count("truncation_undetectable_close_delimited", 1)
			case in.FromStore && fname == "truncated-body" && sim.ParseBody(ex.Body).Intact && ex.BodyErr == "":
				// the cut only removed framing bytes the decoder does not need
				// (e.g. the tail of a chunked dump): the entry still decodes in full
				r.Count("truncation_harmless", 1)
			case in.FromStore && anotherEntryUsable(ex):
			case in.FromStore && readBeforeFault(ex):
				// the entry had been read intact before the fault struck a later
				// read of it (the cache looks again after a validation): what the
				// client got was decoded from good bytes and, where needed, validated
				r.Count("fault_after_a_good_read_of_the_entry", 1)
			default:
				r.Violation("store-fault-not-failed-open", fmt.Sprintf("fault=%s,result=%s", fname, ex.CacheStatus()), fmt.Sprintf("store fault %q struck before the foreground result, but the client did not get the origin's reply of this exchange; %s [base %d, store op %d]", fname, ex.Summary(), c.Base, c.Op), exSummaries(w))
			}
		})
		vec = c10Vector(w)
		ops := w.Store.Ops(0)
		nops = len(ops)
		cnt := map[string]int{}
		for _, o := range ops {
			cnt[o.Op+"\x00"+o.Key]++
			opIDs = append(opIDs, c10OpID{Op: o.Op, Key: o.Key, Nth: cnt[o.Op+"\x00"+o.Key]})
		}
	})
	if fail != "" && judge {
		r.Violation("hang", "bubble-deadlock,fault="+c.Fault, fmt.Sprintf("the bubble did not quiesce (hang or leaked goroutine): %s [base %d, fault %s at store op %d]", firstLine(fail), c.Base, c.Fault, c.Op), nil)
	}
	_ = wref
	return
}

// faultOnWriteOnly: all faulted foreground ops of the exchange are sets/deletes.
func faultOnWriteOnly(ex *sim.Exchange) bool {
	for _, op := range ex.StoreOps {
		if op.Fault != "" && op.Fg && op.Op == "get" {
			return false
		}
	}
	return true
}

// anotherEntryUsable: the faulted read was followed by successful reads of
// other keys that produced the result (e.g. the fault hit one variant only).
func anotherEntryUsable(ex *sim.Exchange) bool {
	faultKey := ""
	for _, op := range ex.StoreOps {
		if op.Fault != "" && op.Fg {
			faultKey = op.Key
		}
	}
	for _, op := range ex.StoreOps {
		if op.Fault == "" && op.Fg && op.Op == "get" && op.Err == "" && op.Key != faultKey &&
			(ex.BodySerial() != "" && bytes.Contains(op.Value, []byte("TOK:"+ex.BodySerial()+":")) ||
				ex.BodySerial() == "" && ex.XMsg() != "" && bytes.Contains(op.Value, []byte("X-Msg: "+ex.XMsg()+"\r\n"))) {
			return true
		}
	}
	return false
}

// readBeforeFault: every faulted foreground read was preceded, in the same
// exchange, by an unfaulted read of the same key that returned the served body.
func readBeforeFault(ex *sim.Exchange) bool {
	found := false
	for i, op := range ex.StoreOps {
		if op.Fault == "" || !op.Fg || op.Op != "get" || c10Decodable[op.Fault] {
			continue
		}
		ok := false
		for _, prev := range ex.StoreOps[:i] {
			// (an earlier read hit by a fault whose result still decodes counts as a read)
			if prev.Op == "get" && prev.Fg && (prev.Fault == "" || c10Decodable[prev.Fault]) && prev.Err == "" && prev.Key == op.Key && len(prev.Value) > 0 {
				ok = true
			}
		}
		if !ok {
			return false
		}
		found = true
	}
	return found
}

func TestC10Faults(t *testing.T) {
	r := run.Start(t, "C10", "store-faults")
	defer r.Finish()
	bases := c10Bases()
	nRandom := r.Tiered(6, 80)
	for i := 0; i < nRandom; i++ {
		rng := rand.New(rand.NewPCG(uint64(r.Seed), uint64(i)+77))
		fc := genFuzzCase(rng, "C10")
		if len(fc.Steps) > 10 {
			fc.Steps = fc.Steps[:10]
		}
		bases = append(bases, fc)
	}
	idx := 0
	for bi := range bases {
		// fault-free run numbers the store operations
		n, kinds, refVec := 0, []c10OpID(nil), []string(nil)
		probe := c10Case{Base: bi, Logger: "discard"}
		needProbe := true
		for j := 0; needProbe || j < n; j++ {
			if needProbe {
				n, kinds, refVec = c10RunOnce(r, &bases[bi], probe, false)
				needProbe = false
				if n == 0 {
					break
				}
				// logger equivalence on the fault-free run
				if r.Mine(idx) {
					_, _, dv := c10RunOnce(r, &bases[bi], c10Case{Base: bi, Logger: "debug"}, false)
					if strings.Join(dv, "\n") != strings.Join(refVec, "\n") {
						r.Violation("logger-changes-behaviour", "fault-free", fmt.Sprintf("base %d behaves differently with a debug logger:\n discard: %v\n debug:   %v", bi, refVec, dv), nil)
					}
				}
			}
			for fi, f := range c10Faults {
				if f.Ops != "*" && f.Ops != kinds[j].Op {
					continue
				}
				if !r.Thorough() && (j*31+fi*7+bi)%3 != 0 && bi >= 21 {
					continue // quick: a third of the fault points of the random bases
				}
				i := idx
				idx++
				if !r.Mine(i) {
					continue
				}
				c := c10Case{Base: bi, Random: bi >= 21, Op: j, Fault: f.Name, Logger: []string{"discard", "debug"}[i%2], at: &kinds[j]}
				r.Begin(i, c)
				_, _, vec := c10RunOnce(r, &bases[bi], c, true)
				r.Nontrivial(fmt.Sprintf("%d|%d|%s", bi, j, f.Name))
				r.Count("fault:"+f.Name, 1)
				if i%4 == 0 {
					other := c
					other.Logger = []string{"debug", "discard"}[i%2]
					_, _, v2 := c10RunOnce(r, &bases[bi], other, false)
					if strings.Join(vec, "\n") != strings.Join(v2, "\n") {
						r.Violation("logger-changes-behaviour", "fault="+f.Name, fmt.Sprintf("base %d with fault %s at op %d behaves differently with another logger:\n %s: %v\n %s: %v", bi, f.Name, j, c.Logger, vec, other.Logger, v2), nil)
					}
				}
				if r.WantSample() && i%37 == 0 {
					r.Sample(map[string]any{"case": c, "store_ops_in_fault_free_run": n, "vector": vec})
				}
				// pairs (thorough): a second fault at a later operation
				if r.Thorough() && bi < 21 && (i%5 == 0) {
					for j2 := j + 1; j2 < n; j2 += 3 {
						f2 := c10Faults[(j2+fi)%len(c10Faults)]
						if f2.Ops != "*" && f2.Ops != kinds[j2].Op {
							continue
						}
						c2 := c
						c2.Op2, c2.Fault2 = j2, f2.Name
						r.Begin(i, c2)
						c10RunOnce(r, &bases[bi], c2, true)
						r.Count("fault_pairs", 1)
					}
				}
			}
		}
	}
	r.Done()
}

// TestC10Requests: requests a Go client can build but no origin can serve.
func TestC10Requests(t *testing.T) {
	r := run.Start(t, "C10", "odd-requests")
	defer r.Finish()
	type oc struct {
		Name string
		URL  *url.URL
	}
	cases := []oc{
		{"relative-path", &url.URL{Path: "/relative"}},
		{"no-scheme-with-host", &url.URL{Host: "a.example", Path: "/x"}},
		{"scheme-relative", &url.URL{Host: "a.example"}},
		{"path-only-no-slash", &url.URL{Path: "example.com/x"}},
		{"unsupported-scheme", &url.URL{Scheme: "ftp", Host: "a.example", Path: "/x"}},
		{"empty", &url.URL{}},
		{"opaque-mailto", &url.URL{Scheme: "mailto", Opaque: "user@example.com"}},
		{"no-host", &url.URL{Scheme: "http", Path: "/x"}},
		{"host-with-space", &url.URL{Scheme: "http", Host: "a b", Path: "/x"}},
		{"query-only", &url.URL{RawQuery: "a=1"}},
		{"bad-port", &url.URL{Scheme: "http", Host: "a.example:99999999999", Path: "/"}},
		{"ipv6-unclosed", &url.URL{Scheme: "http", Host: "[::1", Path: "/"}},
	}
	for i, c := range cases {
		if !r.Mine(i) {
			continue
		}
		r.Begin(i, c.Name)
		fail := r.Bubble(func() {
			// the plain upstream decides what is an error: it rejects URLs without scheme or host
			w := sim.NewWorld(sim.WorldOpt{Handler: func(uc *sim.UpCall, req *http.Request) *sim.Reply {
				if req.URL.Scheme != "http" && req.URL.Scheme != "https" || req.URL.Host == "" {
					return Render(&RespSpec{Err: true}, uc.Enter, uc.Serial)
				}
				return Render(&RespSpec{Status: 200, CC: []string{"max-age=60"}, BodySize: 5}, uc.Enter, uc.Serial)
			}})
			defer w.Close()
			for k := 0; k < 3; k++ {
				u := *c.URL
				spec := sim.ReqSpec{URLObj: &u, URL: c.Name}
				if k == 2 {
					spec.Method = "POST"
				}
				ex := w.Do(spec)
				r.AddEvaluations(1)
				in := mon.Classify(w, ex)
				for _, v := range mon.C10Basic(in) {
					r.Violation(v.Clause, v.Sig+",request="+c.Name, v.Msg, exSummaries(w))
				}
				upErr := false
				for _, uc := range ex.Calls() {
					if uc.Reply != nil && uc.Reply.Err != nil {
						upErr = true
					}
				}
				if ex.Panic == "" && upErr != (ex.Err != nil) && len(ex.Calls()) > 0 {
					r.Violation("error-mismatch", "request="+c.Name, fmt.Sprintf("the upstream %v an error but RoundTrip returned err=%v; %s", map[bool]string{true: "returned", false: "did not return"}[upErr], ex.Err, ex.Summary()), exSummaries(w))
				}
			}
			r.Nontrivial("odd|" + c.Name)
		})
		if fail != "" {
			r.Violation("hang", "bubble-deadlock,request="+c.Name, "bubble failure: "+firstLine(fail), nil)
		}
	}
	r.SetExhaustive(true)
	r.Done()
}

// TestC10StaleUsable: "returns an error only when the origin call itself
// failed and no stale response may be used" - the stale-if-error scenarios
// with a transport error, judged under C10.
func TestC10StaleUsable(t *testing.T) {
	r := run.Start(t, "C10", "stale-usable")
	defer r.Finish()
	cases := c13Cases(false)
	k := 0
	for _, c := range cases {
		if c.Failure != "err" {
			continue
		}
		i := k
		k++
		if !r.Thorough() && i%4 != 0 {
			continue
		}
		if !r.Mine(i) {
			continue
		}
		r.Begin(i, c)
		if fail := r.Bubble(func() { c13Run(r, c) }); fail != "" {
			r.Violation("hang", "bubble-deadlock", "bubble failed: "+firstLine(fail), c)
		}
	}
	r.Done()
}

// TestC10OddHeaders: malformed-but-sendable request header values in fields the
// stored response's Vary nominates (they go through the header normalisers).
func TestC10OddHeaders(t *testing.T) {
	r := run.Start(t, "C10", "odd-headers")
	defer r.Finish()
	fields := []string{"Accept", "Accept-Encoding", "Accept-Language", "Accept-Charset", "TE", "User-Agent", "Authorization", "Cache-Control", "If-Modified-Since", "X-A"}
	values := append(append([]string(nil), oddListValues...), "", "Basic", " Bearer x", "\t", "a\tb", strings.Repeat("a;q=0.5,", 300), strings.Repeat(";", 500), "\xff\xfe", "é;q=0.5")
	idx := 0
	for _, f := range fields {
		for _, v := range values {
			i := idx
			idx++
			if !r.Mine(i) {
				continue
			}
			r.Begin(i, map[string]string{"field": f, "value": v})
			fail := r.Bubble(func() {
				w := sim.NewWorld(sim.WorldOpt{Handler: func(uc *sim.UpCall, req *http.Request) *sim.Reply {
					return Render(&RespSpec{Status: 200, CC: []string{"max-age=60"}, Vary: []string{f}, BodySize: 5}, uc.Enter, uc.Serial)
				}})
				defer w.Close()
				for k := 0; k < 3; k++ {
					h := map[string][]string{f: {v}}
					if k == 1 {
						h = map[string][]string{f: {"plain"}}
					}
					ex := w.Do(sim.ReqSpec{URL: "http://a.example/odd", Header: h})
					r.AddEvaluations(1)
					in := mon.Classify(w, ex)
					for _, vv := range mon.C10Basic(in) {
						r.Violation(vv.Clause, vv.Sig+",field="+f, vv.Msg, exSummaries(w))
					}
				}
				r.Nontrivial("oddhdr|" + f + "|" + v)
			})
			if fail != "" {
				r.Violation("hang", "bubble-deadlock,field="+f, "bubble failure: "+firstLine(fail), nil)
			}
		}
	}
	r.SetExhaustive(true)
	r.Done()
}

// TestC10OddUpstream: an upstream RoundTripper other than net/http's may hand
// over responses net/http itself never produces - here a response whose Header
// map is nil (reading it is fine, the first write panics). Every path that
// contacts the origin gets one: miss, bypass (HEAD, POST), foreground
// validation, background revalidation (where a panic kills the process).
func TestC10OddUpstream(t *testing.T) {
	r := run.Start(t, "C10", "odd-upstream")
	defer r.Finish()
	stages := []string{"miss", "head", "post", "validation-200", "validation-304", "validation-503", "background-200", "background-304", "range"}
	for i, stage := range stages {
		if !r.Mine(i) {
			continue
		}
		r.Begin(i, map[string]string{"nil_header_at": stage})
		fail := r.Bubble(func() {
			odd := false
			w := sim.NewWorld(sim.WorldOpt{Handler: func(uc *sim.UpCall, req *http.Request) *sim.Reply {
				rs := RespSpec{Status: 200, CC: []string{"max-age=10, stale-while-revalidate=20, stale-if-error=100"}, ETag: `"o"`, BodySize: 9}
				if odd {
					rs.NilHeader = true
					switch {
					case strings.HasSuffix(stage, "-304") && uc.Conditional():
						rs = RespSpec{Status: 304, NilHeader: true}
					case strings.HasSuffix(stage, "-503"):
						rs = RespSpec{Status: 503, BodySize: 3, NilHeader: true}
					}
				}
				if req.Method == "HEAD" {
					rs.NoBody = true
				}
				return Render(&rs, uc.Enter, uc.Serial)
			}})
			defer w.Close()
			judge := func(ex *sim.Exchange) {
				r.AddEvaluations(1)
				for _, vv := range mon.C10Basic(mon.Classify(w, ex)) {
					r.Violation(vv.Clause, vv.Sig+",nil-header="+stage, vv.Msg, exSummaries(w))
				}
			}
			const url = "http://a.example/oddup"
			if stage != "miss" {
				judge(w.Do(sim.ReqSpec{URL: url}))
			}
			switch {
			case strings.HasPrefix(stage, "validation"):
				time.Sleep(40 * time.Second) // stale, outside the stale-while-revalidate window
			case strings.HasPrefix(stage, "background"):
				time.Sleep(15 * time.Second) // stale, inside it
			}
			odd = true
			spec := sim.ReqSpec{URL: url}
			switch stage {
			case "head":
				spec.Method = "HEAD"
			case "post":
				spec.Method = "POST"
			case "range":
				spec.Header = map[string][]string{"Range": {"bytes=0-1"}}
			}
			ex := w.Do(spec)
			w.Settle(ex, 5*time.Second)
			judge(ex)
			odd = false
			judge(w.Do(sim.ReqSpec{URL: url}))
			r.Nontrivial("oddup|" + stage)
		})
		if fail != "" {
			r.Violation("hang", "bubble-deadlock,nil-header="+stage, "bubble failure: "+firstLine(fail), nil)
		}
	}
	r.SetExhaustive(true)
	r.Done()
}

// closeDelimitedFault: the faulted value's header block carries neither a
// Content-Length nor a chunked Transfer-Encoding.
func closeDelimitedFault(ex *sim.Exchange) bool {
	for _, op := range ex.StoreOps {
		if op.Fault == "" || !op.Fg {
			continue
		}
		i := bytes.Index(op.Value, []byte("\r\n\r\n"))
		if i < 0 {
			return false
		}
		block := bytes.ToLower(op.Value[:i])
		return !bytes.Contains(block, []byte("\r\ncontent-length:")) && !bytes.Contains(block, []byte("\r\ntransfer-encoding: chunked"))
	}
	return false
}
