package rfc

import (
	"fmt"
	"net/http"
	"strings"
	"testing"
	"time"

	"verif/harness/mon"
	"verif/harness/run"
	"verif/harness/sim"
)

// The directive product: stored directive set x request directive set x
// validators x age class x origin answer to a validation. One generator serves
// the scenario parts of C02, C11 and C18.

var prodStored = [][]string{
	{"max-age=10"}, {"max-age=0"}, {"max-age=10", "no-cache"}, {"no-cache"}, {"max-age=10", `no-cache="X-Extra"`},
	{"max-age=10", "must-revalidate"}, {"max-age=0", "must-revalidate"}, {"max-age=10", "must-revalidate", "stale-while-revalidate=30"},
	{"max-age=10", "must-revalidate", "stale-if-error=30"}, {"max-age=10", "stale-while-revalidate=30"}, {"max-age=10", "stale-if-error=30"},
	{"max-age=10", "stale-while-revalidate=30", "stale-if-error=30"}, {"max-age=10", "immutable"}, {"max-age=10", "immutable", "no-cache"},
	{"max-age=10", "immutable", "must-revalidate"}, {"max-age=10", "no-cache", "stale-while-revalidate=30"}, {"max-age=10", "no-cache", "stale-if-error=30"},
	{"max-age=10", `no-cache="X-Extra"`, "stale-while-revalidate=30"}, {"max-age=10", `no-cache="X-Extra"`, "stale-if-error=30"},
	{"public"}, {"max-age=10", "private"}, {"max-age=10", "public", "must-revalidate", "no-cache"}, {"max-age=10", "immutable", "stale-while-revalidate=30"},
	{"max-age=10", "must-revalidate", "stale-while-revalidate=30", "stale-if-error=30"},
	// repeated directives: the first occurrence of a value counts (or the response
	// is stale), and the two forms of no-cache add up
	{"max-age=10", "no-cache", `no-cache="X-Extra"`}, {"max-age=10", `no-cache="X-Extra"`, "no-cache", "stale-while-revalidate=30"},
	{"max-age=0", "max-age=3600"}, {"max-age=10", `no-cache="X-Extra"`, `no-cache="X-Extra2"`},
	// a qualified no-cache that names the cache's own fields
	{"max-age=10", `no-cache="Age, X-Httpcache-Status, X-From-Cache"`, "stale-while-revalidate=30", "stale-if-error=30"},
}

var prodReq = []string{"", "no-cache", "max-age=0", "max-age=5", "max-age=100", "max-stale", "max-stale=5", "min-fresh=5", "only-if-cached",
	"only-if-cached, no-cache", "only-if-cached, max-stale", "max-age=5, max-stale=10", "no-cache, max-stale", "only-if-cached, max-age=0", "stale-if-error=30", "only-if-cached, min-fresh=5", "max-age=0, stale-if-error=30", "max-age=5, stale-if-error=30",
	"max-age=0, max-age=100"}
var prodValidators = []string{"none", "etag", "lm", "both"}
var prodAges = []string{"fresh", "just-stale", "long-stale"}
var prodAnswers = []string{"304", "304+", "200", "404", "500", "503", "err"}

type prodCase struct {
	Stored     []string `json:"stored_cc"`
	Req        string   `json:"req_cc"`
	Validators string   `json:"validators"`
	Age        string   `json:"age"`
	Answer     string   `json:"answer"`
	OriginAge  string   `json:"origin_age,omitempty"`
	DateSkew   string   `json:"date_skew,omitempty"`
	DelayS     float64  `json:"delay_s,omitempty"`
}

func prodCount() int {
	return len(prodStored) * len(prodReq) * len(prodValidators) * len(prodAges) * len(prodAnswers)
}

func prodDecode(i int) prodCase {
	take := func(n int) int { v := i % n; i /= n; return v }
	c := prodCase{}
	c.Answer = prodAnswers[take(len(prodAnswers))]
	c.Age = prodAges[take(len(prodAges))]
	c.Validators = prodValidators[take(len(prodValidators))]
	c.Req = prodReq[take(len(prodReq))]
	c.Stored = prodStored[take(len(prodStored))]
	return c
}

func prodPart(t *testing.T, prop string) {
	r := run.Start(t, prop, "product")
	defer r.Finish()
	total := prodCount()
	r.SetExhaustive(r.Thorough())
	for i := 0; i < total; i++ {
		if !r.Thorough() {
			if r.Rand(i).IntN(10) != 0 {
				continue
			}
		}
		if !r.Mine(i) {
			continue
		}
		c := prodDecode(i)
		// C11 dimensions ride along, derived from the index
		c.OriginAge = []string{"", "", "7", "0"}[i%4]
		c.DateSkew = []string{"", "", "", "-60"}[(i/4)%4]
		c.DelayS = []float64{0, 0, 2}[(i/16)%3]
		r.Begin(i, c)
		if fail := r.Bubble(func() { prodRun(r, prop, c) }); fail != "" {
			r.Violation("bubble", "bubble-failure", "bubble failed: "+firstLine(fail), c)
		}
	}
	r.Done()
}

func TestProductC02(t *testing.T) { prodPart(t, "C02") }
func TestProductC11(t *testing.T) { prodPart(t, "C11") }
func TestProductC18(t *testing.T) { prodPart(t, "C18") }

func prodRun(r *run.Runner, prop string, c prodCase) {
	stored := RespSpec{Status: 200, CC: []string{strings.Join(c.Stored, ", ")}, BodySize: 12, Extra: map[string][]string{"X-Extra": {"x"}, "X-Extra2": {"y"}}, Date: c.DateSkew, DelayS: c.DelayS}
	if c.OriginAge != "" {
		stored.Age = []string{c.OriginAge}
	}
	if c.Validators == "etag" || c.Validators == "both" {
		stored.ETag = `"s"`
	}
	if c.Validators == "lm" || c.Validators == "both" {
		stored.LastMod = "-100000"
	}
	if len(c.Stored) == 1 && c.Stored[0] == "public" {
		stored.LastMod = "-1000" // heuristic lifetime 100 s
	}
	phase := 0
	w := sim.NewWorld(sim.WorldOpt{Handler: func(uc *sim.UpCall, req *http.Request) *sim.Reply {
		if phase == 0 {
			return Render(&stored, uc.Enter, uc.Serial)
		}
		switch c.Answer {
		case "304", "304+":
			if uc.Conditional() {
				rs := RespSpec{Status: 304, ETag: stored.ETag}
				if c.Answer == "304+" {
					rs.CC = stored.CC
					rs.Extra = map[string][]string{"X-New": {"n"}}
				}
				return Render(&rs, uc.Enter, uc.Serial)
			}
			return Render(&RespSpec{Status: 200, CC: stored.CC, ETag: stored.ETag, LastMod: stored.LastMod, BodySize: 14}, uc.Enter, uc.Serial)
		case "200":
			return Render(&RespSpec{Status: 200, CC: []string{"max-age=10"}, ETag: `"t"`, BodySize: 14}, uc.Enter, uc.Serial)
		case "404":
			return Render(&RespSpec{Status: 404, BodySize: 5}, uc.Enter, uc.Serial)
		case "500":
			return Render(&RespSpec{Status: 500, BodySize: 5}, uc.Enter, uc.Serial)
		case "503":
			return Render(&RespSpec{Status: 503, BodySize: 5, DelayS: c.DelayS}, uc.Enter, uc.Serial)
		}
		return Render(&RespSpec{Err: true, DelayS: c.DelayS}, uc.Enter, uc.Serial)
	}})
	defer w.Close()
	first := w.Do(sim.ReqSpec{URL: "http://a.example/prod"})
	if first.BodySerial() != "0.0" {
		r.Inconclusive("store phase failed: " + first.Summary())
		return
	}
	phase = 1
	L := int64(10)
	switch {
	case strings.Contains(stored.CC[0], "max-age=0"):
		L = 0
	case stored.CC[0] == "public":
		L = 100
	}
	switch c.Age {
	case "fresh":
		time.Sleep(2 * time.Second)
	case "just-stale":
		time.Sleep(sec(L + 1))
	default:
		time.Sleep(sec(L + 100))
	}
	spec := sim.ReqSpec{URL: "http://a.example/prod"}
	if c.Req != "" {
		spec.Header = map[string][]string{"Cache-Control": {c.Req}}
	}
	ex := w.Do(spec)
	w.Settle(ex, 40*time.Second)
	in := mon.Classify(w, ex)
	r.AddEvaluations(1)
	obs := exSummaries(w)
	report := func(vs []mon.V) {
		for _, v := range vs {
			if v.Prop == prop {
				r.Violation(v.Clause, v.Sig, v.Msg, obs)
			} else {
				r.CrossObs(v.Prop+":"+v.Clause, 1)
			}
		}
	}
	v2, a2 := mon.C02(in)
	report(v2)
	v2r, nval := mon.C02Request(w, in)
	report(v2r)
	v11, _ := mon.C11(in)
	report(v11)
	v18, a18 := mon.C18(in)
	report(v18)
	report(mon.C10Basic(in))
	report(mon.C16Own(in))
	v1, _, _ := mon.C01(in)
	report(v1)
	switch prop {
	case "C02":
		// scenario half: validators copied exactly; the origin's answer is what comes back
		stNC := false
		for _, d := range c.Stored {
			if d == "no-cache" {
				stNC = true
			}
		}
		for _, uc := range ex.Calls() {
			if !uc.Conditional() && (stored.ETag != "" || stored.LastMod != "") {
				r.Violation("validation-request", "validators-missing,validators="+c.Validators, fmt.Sprintf("upstream call without the stored validators (%s): %v; %s", c.Validators, uc.Header, ex.Summary()), obs)
			}
			if stored.ETag != "" && uc.Header.Get("If-None-Match") != stored.ETag {
				r.Violation("validation-request", "if-none-match-differs", fmt.Sprintf("If-None-Match %q, stored ETag %q", uc.Header.Get("If-None-Match"), stored.ETag), obs)
			}
			if stored.LastMod != "" && first.Header != nil && uc.Header.Get("If-Modified-Since") != first.Header.Get("Last-Modified") {
				r.Violation("validation-request", "if-modified-since-differs", fmt.Sprintf("If-Modified-Since %q, stored Last-Modified %q", uc.Header.Get("If-Modified-Since"), first.Header.Get("Last-Modified")), obs)
			}
			if stored.ETag == "" && stored.LastMod == "" && uc.Conditional() {
				r.Violation("validation-request", "invented-validator", fmt.Sprintf("conditional request without stored validators: %v", uc.Header), obs)
			}
		}
		fg := in.FgCalls
		if len(fg) == 1 && fg[0].Reply != nil && !strings.Contains(c.Req, "only-if-cached") {
			rep := fg[0].Reply
			reqNoCache := strings.Contains(c.Req, "no-cache")
			mustRev := strings.Contains(stored.CC[0], "must-revalidate")
			switch {
			case rep.Err == nil && rep.Status == 304:
				if !in.FromStore || ex.BodySerial() != "0.0" || ex.CacheStatus() != "REVALIDATED" {
					r.Violation("304-not-honoured", "answer="+c.Answer, "the origin confirmed the stored response with a 304 but the result is not the stored response marked REVALIDATED; "+ex.Summary(), obs)
				}
			case rep.Err == nil && (rep.Status == 200 || rep.Status == 404):
				if ex.XMsg() != fg[0].Serial {
					r.Violation("origin-answer-not-returned", fmt.Sprintf("answer=%d", rep.Status), "the validation was answered with a full reply but the result is not that reply; "+ex.Summary(), obs)
				}
			case stNC || mustRev || reqNoCache:
				// failure while validation is mandatory: the failure itself must come back
				if in.FromStore {
					r.Violation("stale-served-despite-mandatory-validation", "answer="+c.Answer+sigShort(c), "validation failed and must-revalidate / no-cache applies, but the stored response was returned; "+ex.Summary(), obs)
				}
			}
		}
		if a2 || nval > 0 {
			r.Nontrivial(fmt.Sprintf("%+v", c))
		}
	case "C11":
		r.Nontrivial(fmt.Sprintf("%+v", c))
		r.Count("status:"+ex.CacheStatus(), 1)
	case "C18":
		if a18 {
			r.Nontrivial(fmt.Sprintf("%+v", c))
			r.Count("only_if_cached_result:"+fmt.Sprint(ex.Status)+"/"+ex.CacheStatus(), 1)
		}
	}
	if r.WantSample() && (prop != "C18" || a18) {
		r.Sample(map[string]any{"case": c, "history": obs})
	}
}

func sigShort(c prodCase) string {
	s := ""
	if strings.Contains(c.Req, "no-cache") {
		s += ",req-no-cache"
	}
	for _, d := range c.Stored {
		if d == "no-cache" || d == "must-revalidate" {
			s += "," + d
		}
	}
	return s
}
