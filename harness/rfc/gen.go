// Package rfc holds the transport-level workloads. Everything here runs the
// real transport inside testing/synctest bubbles (virtual time) against the
// scripted origin and the recording store of package sim.
package rfc

import (
	"fmt"
	"math/rand/v2"
	"net/http"
	"strconv"
	"strings"
	"time"

	"verif/harness/sim"
)

// RespSpec is a semantic description of an origin response, rendered into
// header fields at the moment the origin answers.
type RespSpec struct {
	Status    int                 `json:"status"`
	CC        []string            `json:"cc,omitempty"`       // Cache-Control field lines as sent
	Expires   string              `json:"expires,omitempty"`  // "" absent | "+N"/"-N" seconds relative to Date | "raw:<text>"
	LastMod   string              `json:"last_mod,omitempty"` // "" absent | "-N" seconds before Date | "+N" after | "raw:<text>"
	Age       []string            `json:"age,omitempty"`      // raw Age field lines
	Date      string              `json:"date,omitempty"`     // "" = now | "+N"/"-N" skew | "absent" | "raw:<text>"
	ETag      string              `json:"etag,omitempty"`     // "" absent | "auto" = unique per message | literal
	Vary      []string            `json:"vary,omitempty"`     // Vary field lines
	DelayS    float64             `json:"delay_s,omitempty"`  // response delay
	BodySize  int                 `json:"body_size,omitempty"`
	NoBody    bool                `json:"no_body,omitempty"`
	Extra     map[string][]string `json:"extra,omitempty"`
	Err       bool                `json:"err,omitempty"` // transport error
	Hang      bool                `json:"hang,omitempty"`
	FailBody  bool                `json:"fail_body,omitempty"`
	FailAt    int                 `json:"fail_at,omitempty"`
	Proto     string              `json:"proto,omitempty"`
	Chunked   bool                `json:"chunked,omitempty"`    // body of unknown length
	NilHeader bool                `json:"nil_header,omitempty"` // the upstream hands over a response whose Header map is nil
}

func relTime(base time.Time, spec string) (string, bool) {
	switch {
	case spec == "":
		return "", false
	case strings.HasPrefix(spec, "raw:"):
		return spec[4:], true
	default:
		n, err := strconv.ParseFloat(spec, 64)
		if err != nil {
			return spec, true
		}
		return base.Add(time.Duration(n * float64(time.Second))).UTC().Format(http.TimeFormat), true
	}
}

// Render builds the sim.Reply for a spec; now is the origin's clock reading.
func Render(rs *RespSpec, now time.Time, serial string) *sim.Reply {
	rep := &sim.Reply{Status: rs.Status, Header: http.Header{}, BodySize: rs.BodySize, NoBody: rs.NoBody,
		Delay: time.Duration(rs.DelayS * float64(time.Second)), Hang: rs.Hang, FailBody: rs.FailBody, FailAt: rs.FailAt, Proto: rs.Proto, Chunked: rs.Chunked, NilHeader: rs.NilHeader}
	if rs.Err {
		rep.Err = sim.ErrOrigin
		return rep
	}
	if rep.Status == 0 {
		rep.Status = 200
	}
	if rep.Status == 304 || rep.Status == 204 || rep.Status < 200 {
		rep.NoBody = true
	}
	if rep.NoBody {
		rep.FailBody = false
	}
	h := rep.Header
	date := now
	switch {
	case rs.Date == "":
		h.Set("Date", now.UTC().Format(http.TimeFormat))
	case rs.Date == "absent":
	case strings.HasPrefix(rs.Date, "raw:"):
		h.Set("Date", rs.Date[4:])
	default:
		n, _ := strconv.ParseFloat(rs.Date, 64)
		date = now.Add(time.Duration(n * float64(time.Second)))
		h.Set("Date", date.UTC().Format(http.TimeFormat))
	}
	for _, l := range rs.CC {
		h.Add("Cache-Control", l)
	}
	if v, ok := relTime(date, rs.Expires); ok {
		h.Set("Expires", v)
	}
	if v, ok := relTime(date, rs.LastMod); ok {
		h.Set("Last-Modified", v)
	}
	for _, a := range rs.Age {
		h.Add("Age", a)
	}
	switch rs.ETag {
	case "":
	case "auto":
		h.Set("ETag", `"e`+serial+`"`)
	default:
		h.Set("ETag", rs.ETag)
	}
	for _, v := range rs.Vary {
		h.Add("Vary", v)
	}
	for k, vs := range rs.Extra {
		for _, v := range vs {
			h.Add(k, v)
		}
	}
	return rep
}

// pick returns a random element.
func pick[T any](r *rand.Rand, xs []T) T { return xs[r.IntN(len(xs))] }

func chance(r *rand.Rand, p float64) bool { return r.Float64() < p }

// deltaPool: boundary-heavy delta-seconds texts.
var hugeDeltas = []string{"2147483647", "2147483648", "4294967296", "9223372036", "9223372037", "9223372036854775807", "9223372036854775808", "18446744073709551616", "1180591620717411303424", "1000000000000000000000000000000"}

// elapsedPool returns the boundary-heavy elapsed times (seconds) for lifetimes in play.
func elapsedPool(lifetimes []int64, windows []int64) []int64 {
	set := map[int64]bool{0: true, 1: true, 3600: true, 365 * 86400: true, 60 * 365 * 86400: true}
	for _, l := range lifetimes {
		if l <= 0 || l > 1<<40 {
			continue
		}
		for _, x := range []int64{l / 2, l - 1, l, l + 1, 2 * l} {
			if x >= 0 {
				set[x] = true
			}
		}
		for _, w := range windows {
			if w <= 0 || w > 1<<40 {
				continue
			}
			for _, x := range []int64{l + w - 1, l + w, l + w + 1} {
				set[x] = true
			}
		}
	}
	out := make([]int64, 0, len(set))
	for x := range set {
		out = append(out, x)
	}
	sortInt64(out)
	return out
}

func sortInt64(a []int64) {
	for i := 1; i < len(a); i++ {
		for j := i; j > 0 && a[j] < a[j-1]; j-- {
			a[j], a[j-1] = a[j-1], a[j]
		}
	}
}

func sec(n int64) time.Duration {
	if n > int64(1<<62)/int64(time.Second) {
		return 1 << 62
	}
	return time.Duration(n) * time.Second
}

func itoa(n int64) string { return strconv.FormatInt(n, 10) }

func exSummaries(w *sim.World) []string {
	var out []string
	for _, e := range w.Exchanges {
		out = append(out, e.Summary())
	}
	return out
}

func f(format string, a ...any) string { return fmt.Sprintf(format, a...) }
