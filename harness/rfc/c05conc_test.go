package rfc

import (
	"bytes"
	"context"
	"fmt"
	"io"
	"net/http"
	"os"
	"runtime"
	"sync"
	"testing"
	"time"

	"github.com/bartventer/httpcache"
	"github.com/bartventer/httpcache/store/driver"
	"github.com/bartventer/httpcache/store/memcache"

	"verif/harness/run"
	"verif/harness/sim"
)

// TestC05Concurrent: many distinct resources are fetched - and therefore
// serialised and stored - at the same time through one transport; afterwards
// each is read back from the store one by one and must be, byte for byte and
// field for field, the reply the origin gave for THAT resource. Body sizes are
// equal or slightly decreasing so that a buffer shared between two stores
// would be overwritten in place rather than grow.
func TestC05Concurrent(t *testing.T) {
	r := run.Start(t, "C05", "concurrent-stores")
	defer r.Finish()
	n := r.Tiered(40, 1500)
	for i := 0; i < n; i++ {
		if !r.Mine(i) {
			continue
		}
		rng := r.Rand(i)
		c := map[string]any{"resources": 4 + rng.IntN(28), "backend": pick(rng, []string{"mem", "mem", "fs", "fsaes"}), "size": pick(rng, []int{0, 30, 3000, 70000}),
			"shrink": rng.IntN(3), "rounds": 1 + rng.IntN(3), "slow_set": chance(rng, 0.5)}
		r.Begin(i, c)
		if fail := r.Bubble(func() { c05ConcRun(r, c) }); fail != "" {
			r.Violation("hang", "bubble-failure", "the concurrent workload did not finish cleanly: "+firstLine(fail), c)
		}
	}
	r.Done()
}

func c05ConcRun(r *run.Runner, c map[string]any) {
	nres, backend, size, shrink, rounds, slow := c["resources"].(int), c["backend"].(string), c["size"].(int), c["shrink"].(int), c["rounds"].(int), c["slow_set"].(bool)
	var inner driver.Conn = memcache.Open()
	if backend != "mem" {
		dir := scratchDir()
		defer os.RemoveAll(dir)
		var err error
		if inner, err = openBackend(backend, dir); err != nil {
			r.Inconclusive("backend: " + err.Error())
			return
		}
	}
	type sent struct {
		body   []byte
		header http.Header
	}
	var omu sync.Mutex
	last := map[string]*sent{} // path -> the latest reply the origin gave
	origin := &sim.Origin{Jitter: runtime.Gosched}
	origin.Handler = func(uc *sim.UpCall, req *http.Request) *sim.Reply {
		var k int
		fmt.Sscanf(req.URL.Path, "/c%d", &k)
		rep := Render(&RespSpec{Status: 200, CC: []string{"max-age=100000"}, ETag: "auto", BodySize: max(size-k*shrink, 0),
			Extra: map[string][]string{"X-Res": {req.URL.Path}, "X-Pad": {fmt.Sprintf("%0*d", 8, k)}}}, uc.Enter, uc.Serial)
		return rep
	}
	store := sim.NewRecStore(inner)
	store.Silent = true
	store.Jitter = runtime.Gosched
	if slow {
		// the write reaches the backend a little later than the serialisation
		store.Gate = func(op, key string) {
			if op == "set" {
				time.Sleep(time.Millisecond)
			}
		}
	}
	dsn, release := sim.RegisterConn(store)
	defer release()
	rt := httpcache.NewTransport(dsn, httpcache.WithUpstream(origin))
	fetch := func(path, cc string) (*http.Response, []byte, error) {
		ex := &sim.Exchange{ID: 0}
		req, _ := http.NewRequestWithContext(sim.WithExchange(context.Background(), ex), "GET", "http://a.example"+path, nil)
		if cc != "" {
			req.Header.Set("Cache-Control", cc)
		}
		resp, err := rt.RoundTrip(req)
		if err != nil {
			return nil, nil, err
		}
		b, rerr := io.ReadAll(resp.Body)
		resp.Body.Close()
		if rerr != nil {
			return resp, b, rerr
		}
		return resp, b, nil
	}
	sig := "backend=" + backend
	for round := 0; round < rounds; round++ {
		var wg sync.WaitGroup
		for k := 0; k < nres; k++ {
			wg.Add(1)
			go func(k int) {
				defer wg.Done()
				path := fmt.Sprintf("/c%d", k)
				cc := ""
				if round > 0 {
					cc = "no-cache" // reload: the entry is replaced while others are being replaced
				}
				resp, b, err := fetch(path, cc)
				if err != nil || resp == nil {
					return
				}
				if resp.Header.Get("X-Httpcache-Status") == "MISS" || resp.Header.Get("X-Httpcache-Status") == "BYPASS" {
					omu.Lock()
					last[path] = &sent{body: b, header: resp.Header.Clone()}
					omu.Unlock()
				}
			}(k)
		}
		wg.Wait()
		time.Sleep(time.Second)
		for k := 0; k < nres; k++ {
			path := fmt.Sprintf("/c%d", k)
			want := last[path]
			if want == nil {
				continue
			}
			resp, b, err := fetch(path, "")
			r.AddEvaluations(1)
			if err != nil {
				r.Violation("hit-failed", sig, fmt.Sprintf("reading %s back failed: %v", path, err), nil)
				continue
			}
			st := resp.Header.Get("X-Httpcache-Status")
			if st != "HIT" {
				r.Count("not_served_from_store", 1)
				if st == "MISS" {
					last[path] = &sent{body: b, header: resp.Header.Clone()}
				}
				continue
			}
			r.Count("read_back_from_store", 1)
			if got := resp.Header.Get("X-Res"); got != path {
				r.Violation("foreign-response", sig, fmt.Sprintf("%s stored concurrently with %d other resources reads back as the response for %q", path, nres-1, got), nil)
				continue
			}
			if !bytes.Equal(b, want.body) {
				bi := sim.ParseBody(b)
				r.Violation("body-differs", sig+",concurrent", fmt.Sprintf("%s reads back with %d body bytes (token %q, intact %v); the origin sent %d", path, len(b), bi.Serial, bi.Intact, len(want.body)), nil)
			}
			for _, f := range []string{"Etag", "X-Msg", "X-Pad", "Date", "Cache-Control"} {
				if resp.Header.Get(f) != want.header.Get(f) {
					r.Violation("header-differs", sig+",concurrent,field="+f, fmt.Sprintf("%s reads back with %s: %q; the origin sent %q", path, f, resp.Header.Get(f), want.header.Get(f)), nil)
				}
			}
		}
	}
	r.Nontrivial(fmt.Sprintf("%v", c))
}
