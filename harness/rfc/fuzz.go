package rfc

import (
	"encoding/json"
	"fmt"
	"math/rand/v2"
	"net/http"
	"os"
	"strings"
	"time"

	"verif/harness/mon"
	"verif/harness/run"
	"verif/harness/sim"
)

// FuzzRes is the origin's policy for one resource.
type FuzzRes struct {
	Path    string     `json:"path"`
	Epochs  []RespSpec `json:"epochs"`
	EpochAt []int      `json:"epoch_at"` // upstream call k of this resource uses Epochs[EpochAt[k]]
	// how conditional requests are answered per epoch: "304", "304+" (with
	// header updates), "200", "500", "503", "err"
	OnCond []string `json:"on_cond"`
}

// FuzzStep is one client request.
type FuzzStep struct {
	DtS      float64             `json:"dt_s"`
	Res      int                 `json:"res"`
	Spelling int                 `json:"spelling"`
	Method   string              `json:"method,omitempty"`
	Header   map[string][]string `json:"header,omitempty"`
	Reuse    bool                `json:"reuse,omitempty"`
	LateBody bool                `json:"late_body,omitempty"` // the caller reads the body only after background work has finished
}

// FuzzCase is one random history.
type FuzzCase struct {
	Bias      string     `json:"bias"`
	Resources []FuzzRes  `json:"resources"`
	Steps     []FuzzStep `json:"steps"`
	Debug     bool       `json:"debug_logger,omitempty"`
}

var fuzzSpellings = []func(path string) string{
	func(p string) string { return "http://a.example" + p },
	func(p string) string { return "http://A.EXAMPLE:80" + p },
	func(p string) string { return "HTTP://a.example" + strings.Replace(p, "r", "%72", 1) },
	func(p string) string { return "http://a.example/x/.." + p + "#frag" },
	func(p string) string { return "http://a.example/y/%2E%2e" + p },
}

func genCCResp(r *rand.Rand, bias string) []string {
	var ds []string
	add := func(p float64, d string) {
		if chance(r, p) {
			ds = append(ds, d)
		}
	}
	maxAges := []string{"0", "1", "5", "10", "60", "3600", "abc", "2147483648", "99999999999999999999"}
	if chance(r, 0.75) {
		ds = append(ds, "max-age="+pick(r, maxAges))
	}
	pb := 0.12
	if bias == "C02" || bias == "C18" {
		pb = 0.3
	}
	if chance(r, pb) {
		ds = append(ds, "no-cache")
	} else if chance(r, pb/2) {
		ds = append(ds, pick(r, []string{`no-cache="X-Extra"`, `no-cache="X-Extra"`, `no-cache="Age"`, `no-cache="X-Httpcache-Status, X-From-Cache"`, `no-cache="ETag, X-Extra"`}))
		if chance(r, 0.15) {
			ds = append(ds, "no-cache") // both forms
		}
	}
	if chance(r, 0.04) {
		ds = append(ds, "max-age="+pick(r, maxAges)) // a repeated directive
	}
	add(pb, "must-revalidate")
	add(0.06, "no-store")
	add(0.1, "private")
	add(0.15, "public")
	add(0.1, "immutable")
	pw := 0.25
	if bias == "C20" || bias == "C16" || bias == "C05" {
		pw = 0.6
	}
	if chance(r, pw) {
		ds = append(ds, "stale-while-revalidate="+pick(r, []string{"5", "30", "3600"}))
	}
	if chance(r, 0.2) {
		ds = append(ds, "stale-if-error="+pick(r, []string{"5", "30", "3600"}))
	}
	add(0.03, "must-understand")
	r.Shuffle(len(ds), func(i, j int) { ds[i], ds[j] = ds[j], ds[i] })
	if len(ds) == 0 {
		return nil
	}
	if len(ds) > 1 && chance(r, 0.1) {
		k := 1 + r.IntN(len(ds)-1)
		return []string{strings.Join(ds[:k], ", "), strings.Join(ds[k:], ", ")}
	}
	return []string{strings.Join(ds, ", ")}
}

func genRespSpec(r *rand.Rand, bias string, resIdx, epoch int) RespSpec {
	rs := RespSpec{Status: 200, BodySize: 8 + r.IntN(40)}
	if chance(r, 0.2) {
		rs.Status = pick(r, []int{203, 301, 404, 410, 302, 500, 503, 204, 206, 308, 299})
	}
	rs.CC = genCCResp(r, bias)
	if chance(r, 0.25) {
		rs.Expires = pick(r, []string{"+10", "+60", "-1", "raw:0", "+0"})
	}
	if chance(r, 0.4) {
		rs.LastMod = pick(r, []string{"-100", "-864000", "-50"})
	}
	if chance(r, 0.15) {
		rs.Age = []string{pick(r, []string{"0", "3", "7", "100000000000000000000", "-4"})}
	}
	if chance(r, 0.12) {
		rs.Date = pick(r, []string{"-60", "absent", "+30", "raw:garbage"})
	}
	if chance(r, 0.6) {
		rs.ETag = fmt.Sprintf(`"v%d-%d"`, resIdx, epoch)
	}
	pv := 0.3
	if bias == "C04" {
		pv = 0.8
	}
	if chance(r, pv) {
		rs.Vary = pick(r, [][]string{{"X-A"}, {"X-B, X-A"}, {"x-a , x-b"}, {"X-A", "X-B"}, {"*"}, {"X-A, *"}, {"Accept-Encoding"}, {"Accept"}, {"Accept-Language, Accept-Encoding"}})
	}
	if chance(r, 0.15) {
		rs.DelayS = pick(r, []float64{1, 3, 0.3})
	}
	if chance(r, 0.3) {
		rs.Extra = map[string][]string{"X-Extra": {fmt.Sprintf("e%d", epoch)}}
	}
	if chance(r, 0.06) {
		// the origin is itself behind a cache that marks its responses
		if rs.Extra == nil {
			rs.Extra = map[string][]string{}
		}
		rs.Extra["X-From-Cache"] = []string{"1"}
		rs.Extra["X-Httpcache-Status"] = []string{pick(r, []string{"HIT", "STALE"})}
	}
	if chance(r, 0.03) {
		rs.FailBody, rs.FailAt = true, r.IntN(8)
	}
	if chance(r, 0.3) {
		rs.Chunked = true
		if chance(r, 0.3) {
			rs.Proto = "HTTP/1.0" // close-delimited
		}
	}
	return rs
}

var oddListValues = []string{"*/*;q", "text/plain;a", "text/html;q=", ";q=1", "a;;b", "gzip;q", ",", ";", "a;q=abc", "a;q=1;q=0", "a; q", "q=", "=", "a;b;c;d;e;f", "*;q=0.5, *", "\"", "a;q=\"1\"", " ", "a,,b", "a;q=0.0001", "a;q=2", "a;q=-1", "x;", "x;y=", "x ; q = 0.5"}

var fuzzReqCC = []string{"no-cache", "max-age=0", "max-age=5", "max-age=100", "max-stale", "max-stale=5", "min-fresh=3", "only-if-cached", "no-store", "only-if-cached, max-stale", "no-cache, only-if-cached", "stale-if-error=30", "max-age=5, max-stale=10"}

func genFuzzCase(r *rand.Rand, bias string) FuzzCase {
	c := FuzzCase{Bias: bias}
	nres := 1 + r.IntN(3)
	for i := 0; i < nres; i++ {
		fr := FuzzRes{Path: fmt.Sprintf("/r%d", i)}
		ne := 1 + r.IntN(3)
		for e := 0; e < ne; e++ {
			fr.Epochs = append(fr.Epochs, genRespSpec(r, bias, i, e))
			fr.OnCond = append(fr.OnCond, pick(r, []string{"304", "304", "304+", "200", "200", "500", "503", "err"}))
		}
		cur := 0
		for k := 0; k < 48; k++ {
			if cur < ne-1 && chance(r, 0.25) {
				cur++
			}
			fr.EpochAt = append(fr.EpochAt, cur)
		}
		c.Resources = append(c.Resources, fr)
	}
	nsteps := 8 + r.IntN(23)
	var lifetimes, windows []int64
	for _, fr := range c.Resources {
		for _, e := range fr.Epochs {
			for _, l := range e.CC {
				for _, d := range strings.Split(l, ",") {
					d = strings.TrimSpace(d)
					var n int64
					if _, err := fmt.Sscanf(d, "max-age=%d", &n); err == nil && n < 1e6 {
						lifetimes = append(lifetimes, n)
					}
					if _, err := fmt.Sscanf(d, "stale-while-revalidate=%d", &n); err == nil {
						windows = append(windows, n)
					}
					if _, err := fmt.Sscanf(d, "stale-if-error=%d", &n); err == nil {
						windows = append(windows, n)
					}
				}
			}
			if e.Expires == "+10" {
				lifetimes = append(lifetimes, 10)
			}
			if e.Expires == "+60" {
				lifetimes = append(lifetimes, 60)
			}
			if e.LastMod == "-100" {
				lifetimes = append(lifetimes, 10)
			}
			if e.LastMod == "-864000" {
				lifetimes = append(lifetimes, 86400)
			}
		}
	}
	pool := elapsedPool(lifetimes, windows)
	pcc := 0.3
	if bias == "C18" || bias == "C02" {
		pcc = 0.6
	}
	total := 0.0
	for s := 0; s < nsteps; s++ {
		st := FuzzStep{Res: r.IntN(nres), Spelling: 0}
		if chance(r, 0.3) {
			st.Spelling = r.IntN(len(fuzzSpellings))
		}
		// time step: mostly small boundary values, occasionally huge
		switch {
		case chance(r, 0.15):
			st.DtS = 0
		case chance(r, 0.05):
			st.DtS = float64(pick(r, []int64{3600, 365 * 86400, 60 * 365 * 86400}))
		default:
			v := pick(r, pool)
			if v > 100000 {
				v = pick(r, []int64{1, 2, 5, 11})
			}
			st.DtS = float64(v)
			if chance(r, 0.1) {
				st.DtS += pick(r, []float64{0.3, 0.999})
			}
		}
		pm := 0.1
		if bias == "C07" {
			pm = 0.3
		}
		if chance(r, pm) {
			st.Method = pick(r, []string{"POST", "PUT", "DELETE", "PATCH", "HEAD", "OPTIONS", "PROPPATCH", "FOO", "PURGE", "MKCOL", "get", "Report"})
		}
		h := map[string][]string{}
		if chance(r, pcc) {
			cc := pick(r, fuzzReqCC)
			if bias == "C18" && chance(r, 0.5) && !strings.Contains(cc, "only-if-cached") {
				cc += ", only-if-cached"
			}
			h["Cache-Control"] = []string{cc}
			if chance(r, 0.12) {
				h["Cache-Control"] = []string{pick(r, []string{", " + cc, strings.Replace(cc, ", ", ",, ", 1), "x=1,, " + cc, cc + ","})}
			} else if parts := strings.Split(cc, ", "); len(parts) > 1 && chance(r, 0.3) {
				h["Cache-Control"] = parts // one directive per field line
			} else if chance(r, 0.1) {
				h["Cache-Control"] = []string{"x-ext=1", cc}
			}
		}
		if chance(r, 0.4) {
			h["X-A"] = []string{pick(r, []string{"1", "2", "1X-B", "1, 2", ""})}
		}
		if chance(r, 0.3) {
			h["X-B"] = []string{pick(r, []string{"1", "2", "X-B2"})}
		}
		if chance(r, 0.15) {
			h["Accept-Encoding"] = []string{pick(r, []string{"gzip", "gzip, br", "br,gzip", "x-gzip", "identity"})}
		}
		if chance(r, 0.12) {
			// unusual but sendable media-range / coding lists
			h[pick(r, []string{"Accept", "Accept-Encoding", "Accept-Language"})] = []string{pick(r, oddListValues)}
		}
		if chance(r, 0.03) {
			h["Range"] = []string{"bytes=0-3"}
		}
		if chance(r, 0.04) {
			h["If-None-Match"] = []string{pick(r, []string{`"v0-0"`, `"zzz"`})}
		}
		if len(h) > 0 {
			st.Header = h
		}
		// the bubble's clock must stay below 2262 (int64 nanoseconds): beyond it
		// go1.25's fake clock saturates and the next Sleep crashes the runtime
		total += st.DtS
		if total > 200*365*86400 {
			total -= st.DtS
			st.DtS = 1
			total++
		}
		st.Reuse = chance(r, 0.12)
		if bias == "C16" {
			st.LateBody = chance(r, 0.3)
		}
		c.Steps = append(c.Steps, st)
	}
	return c
}

// fuzzHandler scripts the origin for a case.
func fuzzHandler(c *FuzzCase, counts []int) sim.Handler {
	return func(uc *sim.UpCall, req *http.Request) *sim.Reply {
		ri := -1
		for i, fr := range c.Resources {
			if strings.HasSuffix(strings.SplitN(req.URL.Path, "#", 2)[0], fr.Path) {
				ri = i
			}
		}
		if ri < 0 {
			// a resource of its own: anything stored for it under another key is foreign content
			return Render(&RespSpec{Status: 200, CC: []string{"max-age=100000"}, BodySize: 9}, uc.Enter, uc.Serial)
		}
		fr := &c.Resources[ri]
		k := counts[ri]
		counts[ri]++
		e := fr.EpochAt[min(k, len(fr.EpochAt)-1)]
		spec := fr.Epochs[e]
		if req.Method != "GET" && req.Method != "HEAD" {
			// unsafe / other methods: a plain answer, sometimes with Location
			rs := RespSpec{Status: pick2(k, []int{200, 201, 204, 303, 404, 500}), BodySize: 4}
			if k%3 == 1 {
				rs.Extra = map[string][]string{"Location": {c.Resources[(ri+1)%len(c.Resources)].Path}}
			}
			if k%5 == 2 {
				rs.Extra = map[string][]string{"Content-Location": {"http://other.example" + fr.Path}}
			}
			return Render(&rs, uc.Enter, uc.Serial)
		}
		if req.Method == "HEAD" {
			spec.NoBody = true
		}
		inm, ims := req.Header.Get("If-None-Match"), req.Header.Get("If-Modified-Since")
		if inm != "" || ims != "" {
			matches := (inm != "" && inm == spec.ETag) || (inm == "" && ims != "" && spec.LastMod != "")
			switch mode := fr.OnCond[e]; {
			case mode == "err":
				return Render(&RespSpec{Err: true, DelayS: pick2(k, []float64{0, 0, 3, 7})}, uc.Enter, uc.Serial)
			case mode == "500" || mode == "503":
				st := 500
				if mode == "503" {
					st = 503
				}
				return Render(&RespSpec{Status: st, BodySize: 4, CC: pick2(k, [][]string{nil, {"stale-if-error=60"}}), DelayS: pick2(k, []float64{0, 4, 0, 2})}, uc.Enter, uc.Serial)
			case matches && strings.HasPrefix(mode, "304"):
				r304 := RespSpec{Status: 304, ETag: spec.ETag, Date: spec.Date, Vary: spec.Vary}
				if k%4 == 1 {
					r304.Age = []string{pick2(k/4, []string{"3", "50", "0", "100000000000000000000"})}
				}
				if mode == "304+" {
					r304.CC = spec.CC
					r304.Expires = spec.Expires
					r304.Extra = map[string][]string{"X-New": {fmt.Sprintf("n%d", k)}}
				}
				return Render(&r304, uc.Enter, uc.Serial)
			}
		}
		return Render(&spec, uc.Enter, uc.Serial)
	}
}

func pick2[T any](k int, xs []T) T { return xs[k%len(xs)] }

// Verbose makes workloads print every exchange (replay mode).
var Verbose = os.Getenv("VERIF_VERBOSE") != ""

// FuzzObs is what one history produced for the monitors.
type FuzzObs struct {
	W        *sim.World
	Infos    []*mon.Info
	Invs     []*mon.Invalidation
	Deadlock string
}

// runFuzzCase executes a history inside the current bubble and calls visit
// for every exchange (after quiescence of that exchange).
func runFuzzCase(c *FuzzCase, opt sim.WorldOpt, visit func(w *sim.World, in *mon.Info, invs []*mon.Invalidation)) *sim.World {
	return runFuzzCaseWith(c, opt, nil, visit)
}

// runFuzzCaseWith additionally lets the caller prepare the world (fault plans).
func runFuzzCaseWith(c *FuzzCase, opt sim.WorldOpt, prepare func(w *sim.World), visit func(w *sim.World, in *mon.Info, invs []*mon.Invalidation)) *sim.World {
	counts := make([]int, len(c.Resources))
	opt.Handler = fuzzHandler(c, counts)
	w := sim.NewWorld(opt)
	defer w.Close()
	if prepare != nil {
		prepare(w)
	}
	var invs []*mon.Invalidation
	for _, st := range c.Steps {
		if st.DtS > 0 {
			time.Sleep(time.Duration(st.DtS * float64(time.Second)))
		}
		spec := sim.ReqSpec{Method: st.Method, URL: fuzzSpellings[st.Spelling](c.Resources[st.Res].Path), Header: st.Header, Reuse: st.Reuse, LateBody: st.LateBody}
		ex := w.Do(spec)
		in := mon.Classify(w, ex)
		if Verbose {
			fmt.Printf("EXCHANGE %s\n   resp header: %v\n", ex.Summary(), ex.Header)
			for _, c := range ex.Calls() {
				if c.Reply != nil {
					fmt.Printf("   upstream %s bg=%v enter=%s exit=%s req=%v reply=%d %v err=%v\n", c.Serial, c.Background, c.Enter.Format("15:04:05.000"), c.Exit.Format("15:04:05.000"), c.Header, c.Reply.Status, c.Reply.Header, c.Reply.Err)
				}
			}
			for _, op := range ex.StoreOps {
				fmt.Printf("   store %s %q err=%q fault=%q %d bytes\n", op.Op, op.Key, op.Err, op.Fault, len(op.Value))
			}
		}
		visit(w, in, invs)
		if inv := mon.IsInvalidation(ex); inv != nil {
			invs = append(invs, inv)
		}
	}
	// let all background work finish (hung origins are not scripted here)
	time.Sleep(2 * time.Hour)
	w.Settle(nil, 0)
	return w
}

// finalOwnership compares every returned header map with its snapshot at return.
func finalOwnership(w *sim.World) []mon.V {
	var vs []mon.V
	for _, ex := range w.Exchanges {
		if ex.Resp == nil || ex.Header == nil {
			continue
		}
		if d := sim.HeaderDiff(ex.Header, ex.Resp.Header); d != "" {
			vs = append(vs, mon.V{Prop: "C16", Clause: "header-changed-after-return", Sig: "final", Msg: "the returned header map changed after RoundTrip returned: " + d + "; " + ex.Summary()})
		}
	}
	return vs
}

// fuzzDriver is shared by the per-property fuzz parts: it generates n cases
// biased towards prop, runs all universal monitors on every exchange, reports
// prop's violations and counts the others as cross observations.
func fuzzDriver(r *run.Runner, prop string, n int) {
	for i := 0; i < n; i++ {
		if !r.Mine(i) {
			continue
		}
		rng := r.Rand(i)
		c := genFuzzCase(rng, prop)
		r.Begin(i, c)
		anteInCase := false
		fail := r.Bubble(func() {
			w := runFuzzCase(&c, sim.WorldOpt{}, func(w *sim.World, in *mon.Info, invs []*mon.Invalidation) {
				r.AddEvaluations(1)
				report := func(vs []mon.V) {
					for _, v := range vs {
						if v.Prop == prop {
							r.Violation(v.Clause, v.Sig, v.Msg, exSummaries(w))
						} else {
							r.CrossObs(v.Prop+":"+v.Clause, 1)
						}
					}
				}
				ante := func(p string, a bool, label string) {
					if a && p == prop {
						anteInCase = true
						r.Count("antecedent:"+label, 1)
					}
				}
				v1, a1, perm := mon.C01(in)
				report(v1)
				ante("C01", a1, "from-store-no-contact:"+perm)
				v2, a2 := mon.C02(in)
				report(v2)
				ante("C02", a2, "validation-demanded")
				v2r, nval := mon.C02Request(w, in)
				report(v2r)
				if prop == "C16" {
					for _, v := range v2r {
						if v.Clause == "request-mutated" || v.Clause == "upstream-request" {
							r.Violation(v.Clause, v.Sig, v.Msg, exSummaries(w))
						}
					}
				}
				ante("C02", nval > 0, "validation-request")
				v3, a3, cls := mon.C03(w, in)
				report(v3)
				ante("C03", a3, "from-store:"+cls)
				v4, a4 := mon.C04(w, in)
				report(v4)
				ante("C04", a4, "from-store-with-vary")
				v5, a5 := mon.C05Body(w, in)
				report(v5)
				if prop == "C16" && in.Ex.Spec.LateBody {
					// the caller read the body after all background work: it must still be whole
					for _, v := range v5 {
						r.Violation("returned-body-touched", v.Sig, "body read by the caller after quiescence: "+v.Msg, exSummaries(w))
					}
					r.Count("late_body_reads", 1)
				}
				ante("C05", a5, "body-compared")
				v6, nw := mon.C06(w, in)
				report(v6)
				ante("C06", nw > 0, "store-write")
				v7 := mon.C07Neg(w, in, invs)
				report(v7)
				ante("C07", len(invs) > 0 && in.FromStore, "from-store-after-unsafe")
				report(mon.C10Basic(in))
				ante("C10", true, "exchange")
				v11, a11 := mon.C11(in)
				report(v11)
				ante("C11", a11, "response")
				report(mon.C16Own(in))
				ante("C16", in.HasResp, "response")
				v18, a18 := mon.C18(in)
				report(v18)
				ante("C18", a18, "only-if-cached")
			})
			for _, v := range finalOwnership(w) {
				if prop == "C16" {
					r.Violation(v.Clause, v.Sig, v.Msg, exSummaries(w))
				} else {
					r.CrossObs("C16:"+v.Clause, 1)
				}
			}
			if r.WantSample() && anteInCase {
				r.Sample(map[string]any{"history": exSummaries(w)})
			}
		})
		if fail != "" {
			if prop == "C10" || prop == "C20" {
				r.Violation("hang", "bubble-deadlock", "the bubble did not quiesce: "+fail, c)
			} else {
				r.CrossObs("C10:bubble-failure", 1)
				r.Inconclusive("bubble failure in fuzz case: " + firstLine(fail))
			}
		}
		if anteInCase {
			b, _ := json.Marshal(c)
			r.Nontrivial("fuzz/" + string(b))
		}
	}
}

func firstLine(s string) string {
	if i := strings.IndexByte(s, '\n'); i >= 0 {
		return s[:i]
	}
	return s
}
