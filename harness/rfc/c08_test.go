package rfc

import (
	"fmt"
	"math/rand/v2"
	"net/http"
	"os"
	"strconv"
	"testing"
	"time"

	"github.com/bartventer/httpcache/store/driver"

	"verif/harness/run"
	"verif/harness/sim"
)

type c08Step struct {
	Kind    string    `json:"kind"`                   // "304" | "200"
	Mode    string    `json:"mode"`                   // "fg" | "swr"
	NewL    int64     `json:"new_lifetime,omitempty"` // 304/200: max-age sent (0 = 304 sends no Cache-Control)
	XNew    bool      `json:"x_new,omitempty"`
	Age     string    `json:"age,omitempty"`
	BogusCL bool      `json:"bogus_content_length,omitempty"`
	Hop     bool      `json:"hop,omitempty"`
	NewETag bool      `json:"new_etag,omitempty"`
	Expires bool      `json:"expires,omitempty"`
	VaryChg bool      `json:"vary_change,omitempty"`
	NoDate  bool      `json:"no_date,omitempty"`  // the validation reply carries no Date (origin without a clock)
	TwoLine bool      `json:"two_line,omitempty"` // the 304 sends Cache-Control and X-New on two field lines each
	Follow  []float64 `json:"follow_s"`
}

type c08Case struct {
	NOther     int       `json:"other_variants"`
	Vary       bool      `json:"vary"`
	L0         int64     `json:"l0"`
	SWR        int64     `json:"swr"`
	Validators string    `json:"validators"`
	Backend    string    `json:"backend"`
	Status     int       `json:"status"`
	Steps      []c08Step `json:"steps"`
}

func genC08(r *rand.Rand) c08Case {
	c := c08Case{NOther: r.IntN(3), Vary: chance(r, 0.7), L0: pick(r, []int64{5, 10, 60}), SWR: pick(r, []int64{0, 30, 30}),
		Validators: pick(r, []string{"etag", "lm", "both"}), Backend: pick(r, []string{"mem", "mem", "mem", "mem", "fs", "fsaes"})}
	c.Status = pick(r, []int{200, 200, 200, 302, 307, 404, 403})
	if !c.Vary {
		c.NOther = 0
	}
	n := 1 + r.IntN(6)
	for i := 0; i < n; i++ {
		s := c08Step{Kind: pick(r, []string{"304", "304", "200"}), Mode: "fg"}
		if c.SWR > 0 && chance(r, 0.4) {
			s.Mode = "swr"
		}
		s.NewL = pick(r, []int64{0, 10, 60, 3600})
		if s.Kind == "200" && s.NewL == 0 {
			s.NewL = 60
		}
		s.XNew = chance(r, 0.6)
		if chance(r, 0.25) {
			s.Age = pick(r, []string{"3", "0"})
		}
		s.BogusCL = chance(r, 0.3)
		s.Hop = chance(r, 0.3)
		s.NewETag = chance(r, 0.3) && c.Validators != "lm"
		s.Expires = chance(r, 0.2)
		s.VaryChg = s.Kind == "200" && chance(r, 0.2)
		s.TwoLine = s.Kind == "304" && (i+n+int(s.NewL))%3 == 0 // (derived: the case list of earlier versions is unchanged)
		s.Follow = nil
		for _, f := range []float64{0, 1, 0.5, -2} {
			if chance(r, 0.6) {
				s.Follow = append(s.Follow, f)
			}
		}
		s.NoDate = chance(r, 0.2)
		c.Steps = append(c.Steps, s)
	}
	return c
}

func TestC08(t *testing.T) {
	r := run.Start(t, "C08", "scenario")
	defer r.Finish()
	n := r.Tiered(3000, 80000)
	for i := 0; i < n; i++ {
		if !r.Mine(i) {
			continue
		}
		c := genC08(r.Rand(i))
		r.Begin(i, c)
		if fail := r.Bubble(func() { c08Run(r, c) }); fail != "" {
			r.Violation("bubble", "bubble-failure", "bubble failed: "+fail, nil)
		}
	}
	r.Done()
}

func c08Run(r *run.Runner, c c08Case) {
	var inner driver.Conn
	if c.Backend != "mem" {
		dir := scratchDir()
		defer os.RemoveAll(dir)
		var err error
		if inner, err = openBackend(c.Backend, dir); err != nil {
			r.Inconclusive("backend: " + err.Error())
			return
		}
	}
	// origin state for the chain variant
	curL := c.L0
	stepIdx := -1 // -1: initial fetch
	etagGen := 0
	varyNow := []string(nil)
	if c.Vary {
		varyNow = []string{"X-A"}
	}
	baseSpec := func(L int64) RespSpec {
		cc := "max-age=" + itoa(L)
		if c.SWR > 0 {
			cc += ", stale-while-revalidate=" + itoa(c.SWR)
		}
		rs := RespSpec{Status: c.Status, CC: []string{cc}, BodySize: 20, Vary: varyNow}
		if c.Validators != "lm" {
			rs.ETag = `"c` + strconv.Itoa(etagGen) + `"`
		}
		if c.Validators != "etag" {
			rs.LastMod = "-1000"
		}
		return rs
	}
	var pending *c08Step
	w := sim.NewWorld(sim.WorldOpt{Inner: inner, Handler: func(uc *sim.UpCall, req *http.Request) *sim.Reply {
		xa := req.Header.Get("X-A")
		if xa != "" && xa != "chain" {
			if uc.Conditional() {
				return Render(&RespSpec{Status: 304, Vary: []string{"X-A"}, ETag: `"o` + xa + `"`}, uc.Enter, uc.Serial)
			}
			return Render(&RespSpec{Status: 200, CC: []string{"max-age=1000000"}, BodySize: 12, Vary: []string{"X-A"}, ETag: `"o` + xa + `"`}, uc.Enter, uc.Serial)
		}
		st := pending
		if st == nil || !uc.Conditional() {
			return Render(ptr(baseSpec(curL)), uc.Enter, uc.Serial)
		}
		bgDelay := 0.0
		if uc.Background {
			bgDelay = 3 // the background validation is in flight for a while
		}
		if st.Kind == "304" {
			rs := RespSpec{Status: 304, Vary: varyNow, DelayS: bgDelay}
			if st.NewL > 0 {
				cc := "max-age=" + itoa(st.NewL)
				if c.SWR > 0 {
					cc += ", stale-while-revalidate=" + itoa(c.SWR)
				}
				rs.CC = []string{cc}
				if st.TwoLine {
					rs.CC = []string{cc, "private"} // the lifetime is on the first of two field lines
				}
			}
			if st.NewETag {
				etagGen++
			}
			if c.Validators != "lm" {
				rs.ETag = `"c` + strconv.Itoa(etagGen) + `"`
			}
			rs.Extra = map[string][]string{}
			if st.XNew {
				rs.Extra["X-New"] = []string{fmt.Sprintf("s%d", stepIdx)}
				if st.TwoLine {
					rs.Extra["X-New"] = []string{fmt.Sprintf("s%d", stepIdx), "second-line"}
				}
			}
			if st.Age != "" {
				rs.Age = []string{st.Age}
			}
			if st.BogusCL {
				rs.Extra["Content-Length"] = []string{"999"}
			}
			if st.Hop {
				rs.Extra["Connection"] = []string{"X-H"}
				rs.Extra["X-H"] = []string{"secret"}
				rs.Extra["Keep-Alive"] = []string{"timeout=5"}
			}
			if st.Expires {
				rs.Expires = "+5"
			}
			if st.NoDate {
				rs.Date = "absent"
			}
			return Render(&rs, uc.Enter, uc.Serial)
		}
		// full reply
		etagGen++
		if st.VaryChg {
			varyNow = []string{"X-A, X-B"}
			if !c.Vary {
				varyNow = []string{"X-B"}
			}
		}
		rs := baseSpec(st.NewL)
		rs.DelayS = bgDelay
		if st.NoDate {
			rs.Date = "absent"
		}
		if st.XNew {
			rs.Extra = map[string][]string{"X-New": {fmt.Sprintf("s%d", stepIdx)}}
		}
		return Render(&rs, uc.Enter, uc.Serial)
	}})
	defer w.Close()

	hdr := func(v string) map[string][]string {
		if !c.Vary {
			return nil
		}
		return map[string][]string{"X-A": {v}}
	}
	const url = "http://a.example/c8"
	// other variants first, then the chain variant
	otherTok := map[string]string{}
	for i := 0; i < c.NOther; i++ {
		v := fmt.Sprintf("o%d", i)
		ex := w.Do(sim.ReqSpec{URL: url, Header: hdr(v)})
		otherTok[v] = ex.BodySerial()
	}
	first := w.Do(sim.ReqSpec{URL: url, Header: hdr("chain")})
	bodyTok := first.BodySerial()
	replaced := map[string]bool{} // tokens of chain responses that a full reply to a validation replaced
	varyChanged := false
	lastValidated := first.TReturn
	obsOf := func() []string { return exSummaries(w) }
	anyChecked := false
	carriedAge := time.Duration(0)

	for si := range c.Steps {
		st := &c.Steps[si]
		stepIdx = si
		// become stale
		var wait time.Duration
		if st.Mode == "swr" {
			wait = sec(curL) + time.Second
		} else {
			wait = sec(curL) + sec(c.SWR) + 2*time.Second
		}
		if d := time.Until(lastValidated.Add(wait)); d > 0 {
			time.Sleep(d)
		}
		// another variant is reloaded (foreground 304) now and then, so that the
		// stored order of the variants differs from their Date order
		if c.NOther > 0 && (si+len(c.Steps))%3 != 0 {
			v := fmt.Sprintf("o%d", (si+1)%c.NOther)
			h := hdr(v)
			h["Cache-Control"] = []string{"no-cache"}
			ov := w.Do(sim.ReqSpec{URL: url, Header: h})
			r.Count("other_variant_reloads", 1)
			if ov.BodySerial() != otherTok[v] {
				r.Violation("other-variant-lost", "on-reload", fmt.Sprintf("reload of variant %s returned %s, stored token %s; %s", v, ov.BodySerial(), otherTok[v], ov.Summary()), obsOf())
				otherTok[v] = ov.BodySerial()
			}
		}
		pending = st
		ex := w.Do(sim.ReqSpec{URL: url, Header: hdr("chain")})
		inflightVariant := ""
		if st.Mode == "swr" && c.Vary && len(ex.BgCalls()) == 1 && (si+c.NOther)%2 == 0 {
			// (only on every other step: a foreground store also rewrites the index
			// in the matcher's order and would hide index-position mistakes)
			// while the background validation is in flight, a new variant is stored
			time.Sleep(time.Second)
			inflightVariant = fmt.Sprintf("o-inflight-%d", si)
			nv := w.Do(sim.ReqSpec{URL: url, Header: hdr(inflightVariant)})
			otherTok[inflightVariant] = nv.BodySerial()
			r.Count("variants_stored_during_background_validation", 1)
		}
		w.Settle(ex, 4*time.Second)
		pending = nil
		if inflightVariant != "" {
			ov := w.Do(sim.ReqSpec{URL: url, Header: hdr(inflightVariant)})
			if len(ov.Calls()) > 0 || ov.BodySerial() != otherTok[inflightVariant] {
				r.Violation("other-variant-lost", "stored-during-background-validation", fmt.Sprintf("variant %s, stored while a background validation was in flight, is no longer served from the store after it finished; %s", inflightVariant, ov.Summary()), obsOf())
			}
		}
		calls := ex.Calls()
		if len(calls) != 1 || !calls[0].Conditional() {
			r.Inconclusive(fmt.Sprintf("step %d: expected exactly one conditional upstream call, got %s", si, ex.Summary()))
			return
		}
		vcall := calls[0]
		sig := fmt.Sprintf("kind=%s,mode=%s", st.Kind, st.Mode)
		if st.NoDate {
			sig += ",no-date"
		}
		r.Count("validations:"+sig, 1)
		expectL := curL
		if st.NewL > 0 {
			expectL = st.NewL
		}
		expectBody := bodyTok
		if st.Kind == "200" {
			expectBody = vcall.Serial
		}
		// age_value of the stored response after this step: a 304 without Age
		// legitimately leaves the stored Age field in place (carried over)
		// (a 304 without Age restarts the age: the Age of an earlier message
		// belongs to the old request / response times)
		switch {
		case st.Age != "" && st.Kind == "304":
			n, _ := strconv.Atoi(st.Age)
			carriedAge = time.Duration(n) * time.Second
		default:
			carriedAge = 0
		}
		// the response delay of the validation counts towards the age (RFC 9111 4.2.3)
		ageBase := carriedAge + vcall.Exit.Sub(vcall.Enter)
		ageExact := true
		validatedAt := vcall.Exit
		// follow-ups inside the new lifetime
		for _, f := range st.Follow {
			var at time.Time
			switch {
			case f == -2:
				at = validatedAt.Add(sec(expectL) - ageBase - 2*time.Second)
			case f == 0.5:
				at = validatedAt.Add((sec(expectL) - ageBase) / 2)
			default:
				at = validatedAt.Add(time.Duration(f * float64(time.Second)))
			}
			if now := time.Now(); at.Before(now) {
				at = now // time has already passed (settling a background validation)
			}
			if at.Sub(validatedAt)+ageBase+time.Second >= sec(expectL) {
				continue
			}
			if d := time.Until(at); d > 0 {
				time.Sleep(d)
			}
			fu := w.Do(sim.ReqSpec{URL: url, Header: hdr("chain")})
			anyChecked = true
			r.AddEvaluations(1)
			r.Count("followups", 1)
			switch {
			case fu.Header == nil:
				r.Violation("followup-failed", sig, "follow-up failed: "+fu.Summary(), obsOf())
			case len(fu.Calls()) > 0 && st.Kind == "304":
				r.Violation("304-not-written-back", sig, fmt.Sprintf("request %.1fs after a 304 (new lifetime %ds) contacted the origin again; %s", at.Sub(validatedAt).Seconds(), expectL, fu.Summary()), obsOf())
			case len(fu.Calls()) > 0:
				r.Violation("200-not-written-back", sig, fmt.Sprintf("request %.1fs after a full reply (lifetime %ds) contacted the origin again; %s", at.Sub(validatedAt).Seconds(), expectL, fu.Summary()), obsOf())
			case fu.BodySerial() != expectBody:
				cl := "wrong-body"
				if st.Kind == "200" && fu.BodySerial() == bodyTok {
					cl = "replaced-representation-served"
				}
				r.Violation(cl, sig, fmt.Sprintf("expected body of message %s, got %s; %s", expectBody, fu.BodySerial(), fu.Summary()), obsOf())
			case !sim.ParseBody(fu.Body).Intact:
				r.Violation("body-damaged", sig, "body damaged after write-back; "+fu.Summary(), obsOf())
			default:
				if fu.XMsg() != vcall.Serial {
					r.Violation("header-not-updated", sig+",x-msg", fmt.Sprintf("header block is of message %s, expected the validation reply %s; %s", fu.XMsg(), vcall.Serial, fu.Summary()), obsOf())
				}
				if st.XNew && fu.Header.Get("X-New") != fmt.Sprintf("s%d", si) {
					r.Violation("header-not-updated", sig+",x-new", fmt.Sprintf("field introduced by the validation reply missing: X-New=%q; %s", fu.Header.Get("X-New"), fu.Summary()), obsOf())
				} else if st.XNew && st.TwoLine && st.Kind == "304" && len(fu.Header.Values("X-New")) != 2 {
					r.Violation("header-not-updated", sig+",x-new-lines", fmt.Sprintf("the 304 sent X-New on two field lines, the stored response has %q; %s", fu.Header.Values("X-New"), fu.Summary()), obsOf())
				}
				if cl := fu.Header.Get("Content-Length"); cl != "" && cl != strconv.Itoa(len(fu.Body)) {
					r.Violation("content-length-from-304", sig, fmt.Sprintf("Content-Length %q but the body has %d bytes; %s", cl, len(fu.Body), fu.Summary()), obsOf())
				}
				if st.Kind == "304" && st.Hop && (fu.Header.Get("X-H") != "" || fu.Header.Get("Connection") != "" || fu.Header.Get("Keep-Alive") != "") {
					r.Violation("hop-by-hop-merged", sig, fmt.Sprintf("hop-by-hop fields of the 304 were merged: %v; %s", fu.Header, fu.Summary()), obsOf())
				}
				want := fu.TCall.Sub(validatedAt) + ageBase
				lowWant := want
				if !ageExact {
					lowWant = fu.TCall.Sub(validatedAt) + vcall.Exit.Sub(vcall.Enter) // dropping the carried Age is legitimate too
				}
				got, err := strconv.Atoi(fu.Header.Get("Age"))
				if err != nil || time.Duration(got)*time.Second < lowWant-2*time.Second || time.Duration(got)*time.Second > want+time.Second {
					r.Violation("age-not-restarted", sig, fmt.Sprintf("Age %q, expected about %v (restart from the validation reply); %s", fu.Header.Get("Age"), want, fu.Summary()), obsOf())
				}
			}
			// another stored variant must still be available
			if c.NOther > 0 {
				v := fmt.Sprintf("o%d", si%c.NOther)
				ov := w.Do(sim.ReqSpec{URL: url, Header: hdr(v)})
				r.Count("other_variant_checks", 1)
				if len(ov.Calls()) > 0 || ov.BodySerial() != otherTok[v] {
					r.Violation("other-variant-lost", sig, fmt.Sprintf("variant %s stored earlier (token %s) is no longer served from the store after the validation; %s", v, otherTok[v], ov.Summary()), obsOf())
					otherTok[v] = ov.BodySerial()
				}
			}
		}
		if expectBody != bodyTok {
			replaced[bodyTok] = true
			if st.VaryChg {
				varyChanged = true
			}
		}
		bodyTok = expectBody
		curL = expectL
		// the age base shortens the remaining lifetime for the next wait
		lastValidated = validatedAt.Add(-ageBase)
	}
	// at the end every other variant ever stored (they are long-lived) must still be served from the store
	for v, tok := range otherTok {
		ov := w.Do(sim.ReqSpec{URL: url, Header: hdr(v)})
		r.Count("final_variant_checks", 1)
		anyChecked = true
		if len(ov.Calls()) > 0 || ov.BodySerial() != tok {
			r.Violation("other-variant-lost", "final-sweep", fmt.Sprintf("variant %s (token %s) is no longer served from the store at the end of the chain; %s", v, tok, ov.Summary()), obsOf())
		}
	}
	// a response that a validation's full reply replaced is gone, also when the
	// new reply nominates other fields: a request that the old Vary would have
	// matched (and the new one does not) is not answered with the old response
	if varyChanged {
		h := hdr("chain")
		if h == nil {
			h = map[string][]string{}
		}
		h["X-B"] = []string{"probe"}
		pv := w.Do(sim.ReqSpec{URL: url, Header: h})
		r.Count("probes_after_vary_changing_replacement", 1)
		if replaced[pv.BodySerial()] {
			r.Violation("replaced-response-served", "after-vary-change", fmt.Sprintf("a response replaced by a validation's full reply (token %s) is still served, to a request the replacement's Vary does not match; %s", pv.BodySerial(), pv.Summary()), obsOf())
		}
	}
	if anyChecked {
		b := fmt.Sprintf("%+v", c)
		r.Nontrivial(b)
	}
	if r.WantSample() && anyChecked {
		r.Sample(map[string]any{"case": c, "history": obsOf()})
	}
}

func ptr[T any](v T) *T { return &v }
