package rfc

import (
	"fmt"
	"net/http"
	"runtime"
	"strings"
	"testing"
	"time"

	"verif/harness/run"
	"verif/harness/sim"
)

// C20, burst part: many stale-while-revalidate hits at one virtual instant
// against an origin that is slow or never answers - on one resource or on as
// many resources as hits. Every one of them must be answered at once (0 virtual
// time in the foreground), must start exactly one background request, and every
// background request must be released at min(reply, timeout) after it was
// sent: what is already in flight never makes a later caller wait.

type c20BurstCase struct {
	Latency string `json:"latency"` // T-1ms | 10T | never
	Outcome string `json:"outcome"` // 304 | 200 | err
	Timeout string `json:"timeout"`
	N       int    `json:"n"`
	URLs    string `json:"urls"` // same | distinct | pairs
}

func c20BurstCases() []c20BurstCase {
	var out []c20BurstCase
	for _, lat := range []string{"T-1ms", "10T", "never"} {
		for _, oc := range []string{"304", "200", "err"} {
			for _, to := range []string{"unset", "1s", "5s", "1h"} {
				for _, n := range []int{2, 5, 9, 17, 40, 130} {
					for _, u := range []string{"same", "distinct", "pairs"} {
						out = append(out, c20BurstCase{lat, oc, to, n, u})
					}
				}
			}
		}
	}
	return out
}

func TestC20Burst(t *testing.T) {
	r := run.Start(t, "C20", "burst")
	defer r.Finish()
	cases := c20BurstCases()
	r.SetExhaustive(true)
	for i, c := range cases {
		if !r.Thorough() && r.Rand(i).IntN(6) != 0 {
			continue
		}
		if !r.Mine(i) {
			continue
		}
		r.Begin(i, c)
		fail := r.Bubble(func() { c20Burst(r, c) })
		if fail != "" {
			r.Violation("goroutine-left-or-hang", fmt.Sprintf("burst,latency=%s,outcome=%s,n=%d,urls=%s", c.Latency, c.Outcome, c.N, c.URLs), "the bubble did not finish cleanly (goroutine left blocked, or hang): "+firstLine(fail), c)
		}
	}
	r.Done()
}

func c20Burst(r *run.Runner, c c20BurstCase) {
	opt, T := c20Timeout(c.Timeout)
	var lat time.Duration
	hang := false
	switch c.Latency {
	case "T-1ms":
		lat = T - time.Millisecond
	case "10T":
		lat = 10 * T
	case "never":
		hang = true
	}
	const L, W = 10, 100000
	phase := 0
	stored := RespSpec{Status: 200, CC: []string{fmt.Sprintf("max-age=%d, stale-while-revalidate=%d", L, W)}, BodySize: 10, ETag: `"v"`}
	w := sim.NewWorld(sim.WorldOpt{SWRTimeout: opt, Handler: func(uc *sim.UpCall, req *http.Request) *sim.Reply {
		if phase == 0 {
			return Render(&stored, uc.Enter, uc.Serial)
		}
		rs := RespSpec{DelayS: lat.Seconds(), Hang: hang}
		switch c.Outcome {
		case "304":
			if uc.Conditional() {
				rs.Status, rs.ETag = 304, stored.ETag
			} else {
				rs = stored
				rs.DelayS, rs.Hang = lat.Seconds(), hang
			}
		case "200":
			rs.Status, rs.CC, rs.BodySize, rs.ETag = 200, stored.CC, 12, `"w"`
		case "err":
			rs.Err = true
		}
		rep := Render(&rs, uc.Enter, uc.Serial)
		rep.Delay = lat
		return rep
	}})
	defer w.Close()
	nurl := 1
	switch c.URLs {
	case "distinct":
		nurl = c.N
	case "pairs":
		nurl = (c.N + 1) / 2
	}
	urlOf := func(k int) string { return fmt.Sprintf("http://a.example/burst/%d", k%nurl) }
	serials := map[string]string{}
	for k := 0; k < nurl; k++ {
		first := w.Do(sim.ReqSpec{URL: urlOf(k)})
		if first.Err != nil || first.Status != 200 || first.CacheStatus() == "HIT" {
			r.Inconclusive("store phase failed: " + first.Summary())
			return
		}
		serials[urlOf(k)] = first.BodySerial()
	}
	phase = 1
	time.Sleep(sec(L + 5))
	sig := fmt.Sprintf("burst,latency=%s,outcome=%s,timeout=%s,urls=%s", c.Latency, c.Outcome, c.Timeout, c.URLs)
	start := time.Now()
	var exs []*sim.Exchange
	for k := 0; k < c.N; k++ {
		exs = append(exs, w.Do(sim.ReqSpec{URL: urlOf(k)}))
		r.AddEvaluations(1)
	}
	issued := time.Since(start)
	// long enough for the requests to be sent one after the other, each held
	// for the whole timeout
	time.Sleep(time.Duration(c.N)*T + 10*T + 2*time.Hour)
	w.Settle(nil, 0)
	obs := exSummaries(w)
	if len(obs) > 12 {
		obs = obs[:12]
	}
	judged := 0
	for k, ex := range exs {
		if ex.Err != nil || ex.Header == nil {
			r.Violation("foreground-failed", sig, fmt.Sprintf("stale-while-revalidate hit %d of %d failed in the foreground: %s", k+1, c.N, ex.Summary()), obs)
			continue
		}
		if ex.CacheStatus() != "STALE" || ex.BodySerial() != serials[urlOf(k)] {
			if d := ex.TCall.Sub(start); d != 0 {
				continue // an earlier hit already made this one late: that hit is reported
			}
			r.Violation("foreground-not-stale", sig, fmt.Sprintf("hit %d of %d at the same instant: expected the stale stored response marked STALE; %s", k+1, c.N, ex.Summary()), obs)
			continue
		}
		judged++
		if d := ex.TReturn.Sub(ex.TCall); d != 0 {
			r.Violation("foreground-waited", sig, fmt.Sprintf("stale hit %d of %d (with %d background requests in flight) took %v of virtual time in the foreground; %s", k+1, c.N, k, d, ex.Summary()), obs)
			continue
		}
		calls := ex.Calls()
		if len(calls) != 1 {
			r.Violation("revalidation-count", sig+fmt.Sprintf(",n=%d", len(calls)), fmt.Sprintf("%d upstream calls for stale hit %d of %d (expected exactly 1); %s", len(calls), k+1, c.N, ex.Summary()), obs)
			continue
		}
		bc := calls[0]
		if !bc.Background {
			r.Violation("revalidation-not-background", sig, "the revalidation ran on the caller's goroutine; "+ex.Summary(), obs)
		}
		if bc.Header.Get("If-None-Match") != stored.ETag {
			r.Violation("revalidation-unconditional", sig, fmt.Sprintf("background request lacks the stored validator: %v; %s", bc.Header, ex.Summary()), obs)
		}
		want := T
		if !hang && lat < T {
			want = lat
		}
		// measured from the moment the request was sent: a burst may be sent in
		// turns (a bounded set of workers), which the statement allows as long
		// as no caller waits and each request is bounded by the timeout
		if took := bc.Exit.Sub(bc.Enter); took != want {
			r.Violation("background-timing", sig, fmt.Sprintf("background request of stale hit %d of %d lasted %v from the moment it was sent, expected %v (reply after %v / never=%v, timeout %v); %s", k+1, c.N, took, want, lat, hang, T, ex.Summary()), obs)
		}
		if bc.Enter.Sub(ex.TReturn) != 0 {
			r.Count("burst_background_requests_sent_later", 1)
		}
	}
	if issued != 0 {
		r.Count("bursts_not_issued_at_one_instant", 1)
	}
	buf := make([]byte, 1<<20)
	n := runtime.Stack(buf, true)
	gs := strings.Split(string(buf[:n]), "\n\n")
	for _, g := range gs[1:] {
		if strings.Contains(g, "github.com/bartventer/httpcache.") || strings.Contains(g, "github.com/bartventer/httpcache/internal") {
			r.Violation("goroutine-left", sig, "a goroutine with a repository frame is still alive after every background request finished and the bubble quiesced:\n"+firstLines(g, 12), obs)
			break
		}
	}
	if judged > 0 {
		r.Count("burst_stale_hits_judged", judged)
		r.Count(fmt.Sprintf("burst_size:%d", c.N), 1)
		r.Nontrivial(fmt.Sprintf("burst %+v", c))
	}
	if r.WantSample() && judged > 0 {
		r.Sample(map[string]any{"case": c, "stale_hits_judged": judged, "history_head": obs})
	}
}
