package rfc

import (
	"testing"

	"verif/harness/run"
)

func fuzzPart(t *testing.T, prop string, quick, thorough int) {
	r := run.Start(t, prop, "fuzz")
	defer r.Finish()
	fuzzDriver(r, prop, r.Tiered(quick, thorough))
	r.Done()
}

func TestFuzzC01(t *testing.T) { fuzzPart(t, "C01", 2000, 100000) }
func TestFuzzC02(t *testing.T) { fuzzPart(t, "C02", 2000, 60000) }
func TestFuzzC03(t *testing.T) { fuzzPart(t, "C03", 1000, 20000) }
func TestFuzzC04(t *testing.T) { fuzzPart(t, "C04", 2000, 60000) }
func TestFuzzC05(t *testing.T) { fuzzPart(t, "C05", 2000, 60000) }
func TestFuzzC06(t *testing.T) { fuzzPart(t, "C06", 2000, 60000) }
func TestFuzzC07(t *testing.T) { fuzzPart(t, "C07", 2000, 60000) }
func TestFuzzC10(t *testing.T) { fuzzPart(t, "C10", 2000, 60000) }
func TestFuzzC11(t *testing.T) { fuzzPart(t, "C11", 2000, 60000) }
func TestFuzzC16(t *testing.T) { fuzzPart(t, "C16", 2000, 60000) }
func TestFuzzC18(t *testing.T) { fuzzPart(t, "C18", 2000, 60000) }
