package rfc

import (
	"fmt"
	"math/rand/v2"
	"net/http"
	"testing"
	"time"

	"verif/harness/mon"
	"verif/harness/run"
	"verif/harness/sim"
)

// TestC01Overlap: freshness bookkeeping when validations overlap. A stale
// entry is served under stale-while-revalidate and its background validation
// is slow; while it is in flight the entry is rewritten by another exchange
// (a second background validation answered at once, a reload, or a foreground
// validation); the slow reply then lands on the rewritten entry. The replies
// carry short lifetimes without stale-while-revalidate, so whatever is served
// from the store afterwards must be fresh by the reference computation fed
// with the times the harness recorded for the message the entry now carries.
type c01ovCase struct {
	M0     int64     `json:"initial_max_age"`
	M      int64     `json:"max_age_on_validation_replies"`
	D      float64   `json:"slow_reply_delay_s"`
	BOff   float64   `json:"second_request_after_s"`
	BKind  string    `json:"second_request"` // swr | reload | other-variant
	Send   bool      `json:"date_stamped_when_sent"`
	Age    string    `json:"age_on_slow_reply,omitempty"`
	Full   bool      `json:"slow_reply_is_a_full_200"`
	Probes []float64 `json:"probes_after_slow_reply_s"`
}

func genC01ov(r *rand.Rand) c01ovCase {
	c := c01ovCase{M0: pick(r, []int64{2, 5}), M: int64(1 + r.IntN(8)), D: pick(r, []float64{1, 2, 3, 4, 6, 8}),
		BKind: pick(r, []string{"swr", "swr", "reload", "other-variant"}), Send: chance(r, 0.6), Full: chance(r, 0.25)}
	c.BOff = pick(r, []float64{0.5, 1, 2, 3, 5})
	if c.BOff >= c.D {
		c.BOff = c.D / 2
	}
	if chance(r, 0.2) {
		c.Age = pick(r, []string{"0", "2"})
	}
	c.Probes = []float64{0.2, 0.5, 0.5, 1, 1}
	if rest := float64(c.M) - c.D; rest > 0 {
		c.Probes = []float64{0.2, rest - 0.3, 0.5, 0.5, 1}
	}
	return c
}

func TestC01Overlap(t *testing.T) {
	r := run.Start(t, "C01", "overlap")
	defer r.Finish()
	n := r.Tiered(1500, 40000)
	for i := 0; i < n; i++ {
		if !r.Mine(i) {
			continue
		}
		c := genC01ov(r.Rand(i))
		r.Begin(i, c)
		if fail := r.Bubble(func() { c01ovRun(r, c) }); fail != "" {
			r.Violation("bubble", "bubble-failure", "bubble failed: "+fail, nil)
		}
	}
	r.Done()
}

func c01ovRun(r *run.Runner, c c01ovCase) {
	ncond := 0
	w := sim.NewWorld(sim.WorldOpt{Handler: func(uc *sim.UpCall, req *http.Request) *sim.Reply {
		vary := []string{"X-A"}
		if !uc.Conditional() {
			cc := f("max-age=%d", c.M)
			if len(uc.Serial) > 0 && ncond == 0 && req.Header.Get("Cache-Control") == "" {
				cc = f("max-age=%d, stale-while-revalidate=1000", c.M0) // the initial fetches
			}
			return Render(&RespSpec{Status: 200, CC: []string{cc}, ETag: `"v"`, Vary: vary, BodySize: 16}, uc.Enter, uc.Serial)
		}
		ncond++
		rs := RespSpec{Status: 304, CC: []string{f("max-age=%d", c.M)}, ETag: `"v"`, Vary: vary}
		if ncond == 1 {
			// the slow one
			rs.DelayS = c.D
			if c.Send {
				rs.Date = f("+%g", c.D)
			}
			if c.Age != "" {
				rs.Age = []string{c.Age}
			}
			if c.Full {
				rs.Status, rs.BodySize = 200, 16
			}
		}
		return Render(&rs, uc.Enter, uc.Serial)
	}})
	defer w.Close()
	const url = "http://a.example/ov"
	hA := map[string][]string{"X-A": {"a"}}
	judge := func(ex *sim.Exchange, label string) {
		r.AddEvaluations(1)
		in := mon.Classify(w, ex)
		vs, ante, perm := mon.C01(in)
		if ante {
			r.Count("served_from_store_no_contact:"+label, 1)
			r.Count("served:"+perm, 1)
		}
		for _, v := range vs {
			r.Violation(v.Clause, v.Sig+",overlap="+c.BKind, v.Msg+fmt.Sprintf(" [%s]", label), exSummaries(w))
		}
	}
	w.Do(sim.ReqSpec{URL: url, Header: hA})
	time.Sleep(sec(c.M0) + time.Second)
	a := w.Do(sim.ReqSpec{URL: url, Header: hA, NoWait: true}) // served stale; slow background validation starts
	if len(a.Calls()) != 0 || !a.FromStore() {
		r.Count("first_request_not_served_stale", 1)
	}
	time.Sleep(time.Duration(c.BOff * float64(time.Second)))
	switch c.BKind {
	case "swr":
		judge(w.Do(sim.ReqSpec{URL: url, Header: hA}), "second-request")
	case "reload":
		w.Do(sim.ReqSpec{URL: url, Header: map[string][]string{"X-A": {"a"}, "Cache-Control": {"no-cache"}}})
	case "other-variant":
		w.Do(sim.ReqSpec{URL: url, Header: map[string][]string{"X-A": {"b"}}})
	}
	time.Sleep(time.Duration((c.D - c.BOff) * float64(time.Second)))
	w.Settle(a, 0)
	overl := false
	for _, call := range a.BgCalls() {
		if call.Reply != nil && call.Reply.Delay > 0 {
			overl = true
		}
	}
	if overl {
		r.Count("slow_background_validations_overlapped", 1)
		r.Nontrivial(fmt.Sprintf("%+v", c))
	}
	for i, p := range c.Probes {
		time.Sleep(time.Duration(p * float64(time.Second)))
		judge(w.Do(sim.ReqSpec{URL: url, Header: hA}), fmt.Sprintf("probe-%d", i))
	}
	if r.WantSample() && overl {
		r.Sample(map[string]any{"case": c, "history": exSummaries(w)})
	}
}
