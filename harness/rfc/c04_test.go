package rfc

import (
	"fmt"
	"math/rand/v2"
	"net/http"
	"testing"

	"verif/harness/mon"
	"verif/harness/run"
	"verif/harness/sim"
)

type c04Step struct {
	Combo int    `json:"combo"`
	ReqCC string `json:"req_cc,omitempty"`
}

type c04Case struct {
	Combos []map[string][]string `json:"combos"`
	VaryAt [][]string            `json:"vary_at"` // Vary field lines of the k-th origin response
	Steps  []c04Step             `json:"steps"`
}

var c04Delims = []string{"", "=", "&", ":", ";", ",", ", ", "|", " ", "\t", "\x00", "/", "==", "&&", "%00", "\\", "\"", "'", "-", "_", "."}

// crafted families: name/value boundary shifts between X-A and X-B
// serialisation-style delimiter pairs (between name and value, between pairs)
var c04KV = []string{"", "=", ":", ": ", "|", "\t"}
var c04Pair = []string{"", "&", ";", ",", ", ", "|", " ", "\n"}

func c04Family(r *rand.Rand) []map[string][]string {
	d1, d2, d3 := pick(r, c04Delims), pick(r, c04Delims), pick(r, c04Delims)
	if chance(r, 0.6) {
		// "1<pair>X-B<kv>2" is what a naive name/value serialisation of {X-A:1, X-B:2} looks like
		d2 = pick(r, c04KV)
		d1 = pick(r, c04Pair)
		d3 = d1
		if d1 == "\n" {
			d1, d3 = "&", "&"
		}
	}
	if d1 == "\x00" || d2 == "\x00" || d3 == "\x00" {
		d1, d2, d3 = "=", "&", "=" // NUL cannot be sent in a field value
	}
	return []map[string][]string{
		{"X-A": {"1"}, "X-B": {"2"}},
		{"X-A": {"1" + d1 + "X-B" + d2 + "2"}},
		{"X-A": {"1" + d1 + "X-B"}, "X-B": {"2"}},
		{"X-A": {"1"}, "X-B": {"X-B" + d2 + "2"}},
		{"X-A": {"1" + d3 + "X-B" + d2 + "2" + d3}},
		{"X-A": {"1X-B2"}},
		{"X-A": {"1" + d2 + "X-B" + d1 + "2" + d2}, "X-B": {""}},
		{"X-B": {"2"}},
		{"X-A": {"1"}},
		{},
	}
}

var c04Generic = []map[string][]string{
	{"X-A": {"1"}}, {"X-A": {"2"}}, {"X-A": {"1", "2"}}, {"X-A": {"1", "3"}}, {"X-A": {"1, 2"}}, {"X-A": {""}}, {"X-A": {" 1"}},
	{"X-A": {"a"}}, {"X-A": {"A"}}, {"X-A": {"caf\xe9"}}, {"X-A": {"caf\xe8"}}, {"X-A": {"caf\xef\xbf\xbd"}},
	{"Accept-Encoding": {"gzip"}}, {"Accept-Encoding": {"gzip, br"}}, {"Accept-Encoding": {"br"}}, {"Accept-Encoding": {"identity"}}, {"Accept-Encoding": {"gzip;q=0"}},
	{"Accept-Language": {"en"}}, {"Accept-Language": {"en, fr;q=0.5"}}, {"Accept-Language": {"fr"}}, {"Accept-Language": {"en;q=0.5, fr"}},
	{"Accept": {"text/html"}}, {"Accept": {"application/json"}}, {"Accept": {"text/html;level=1"}},
	{"User-Agent": {"a/1"}}, {"User-Agent": {"b/1"}},
	{"User-Agent": {"bot \xe8"}}, {"User-Agent": {"bot \xe9"}}, {"User-Agent": {"\u212aelvin/1"}}, {"User-Agent": {"kelvin/1"}}, {"User-Agent": {"Kelvin/1"}},
	// members that share a value but not its parameters; names that contain an alias
	{"Accept": {"application/json;version=1"}}, {"Accept": {"application/json;version=1, application/json;version=2"}}, {"Accept": {"application/json;version=2"}},
	{"Accept": {"text/html;level=1, text/html;level=2;q=0.5"}},
	{"Accept-Encoding": {"x-gzip-ng"}}, {"Accept-Encoding": {"gzip-ng"}}, {"Accept-Encoding": {"x-gzip"}}, {"Accept-Encoding": {"max-x-compress"}}, {"Accept-Encoding": {"max-compress"}},
	{"X-A": {"1"}, "X-B": {"1"}}, {"X-A": {"1"}, "X-B": {"2"}}, {"X-A": {"2"}, "X-B": {"1"}},
}

var c04Varys = [][]string{nil, {"X-A"}, {"X-B"}, {"X-A, X-B"}, {"X-B, X-A"}, {"x-a , x-b"}, {"X-A", "X-B"}, {"*"}, {"X-A, *"}, {"*", "X-A"},
	{"Accept-Encoding"}, {"Accept-Language"}, {"Accept, Accept-Encoding"}, {"User-Agent"}, {"X-A, Accept-Encoding"}, {"Accept"}, {"Accept-Encoding"}, {"Accept"}}

func genC04(r *rand.Rand) c04Case {
	var c c04Case
	if chance(r, 0.6) {
		c.Combos = c04Family(r)
	} else {
		n := 3 + r.IntN(5)
		for i := 0; i < n; i++ {
			c.Combos = append(c.Combos, pick(r, c04Generic))
		}
	}
	// the Vary set changes over the history
	cur := pick(r, c04Varys)
	for k := 0; k < 40; k++ {
		if chance(r, 0.25) {
			cur = pick(r, c04Varys)
			if chance(r, 0.6) {
				cur = pick(r, [][]string{{"X-A"}, {"X-A, X-B"}, {"X-B"}, {"X-B, X-A"}})
			}
		}
		c.VaryAt = append(c.VaryAt, cur)
	}
	n := 10 + r.IntN(16)
	if len(c.Combos) == 10 && chance(r, 0.6) {
		// scripted opening for the crafted families: two variants that a sloppy
		// variant key could confuse are stored under a narrow Vary, the origin
		// widens Vary, one of them is reloaded (stored through the revalidation
		// path), then both are requested again
		a, b := 0, 1+r.IntN(5)
		if chance(r, 0.5) {
			a, b = b, a
		}
		narrow, wide := []string{"X-A"}, []string{"X-A, X-B"}
		if chance(r, 0.3) {
			narrow, wide = wide, narrow
		}
		c.VaryAt = [][]string{narrow, narrow}
		for k := 0; k < 38; k++ {
			c.VaryAt = append(c.VaryAt, wide)
		}
		c.Steps = append(c.Steps, c04Step{Combo: a}, c04Step{Combo: b}, c04Step{Combo: b, ReqCC: pick(r, []string{"no-cache", "max-age=0"})},
			c04Step{Combo: a}, c04Step{Combo: b}, c04Step{Combo: a, ReqCC: "no-cache"}, c04Step{Combo: b}, c04Step{Combo: a})
	}
	for i := 0; i < n; i++ {
		st := c04Step{Combo: r.IntN(len(c.Combos))}
		if chance(r, 0.2) {
			st.ReqCC = pick(r, []string{"no-cache", "max-age=0"})
		}
		c.Steps = append(c.Steps, st)
	}
	return c
}

// TestC04Histories: 10-25 GETs to one URL, everything long-lived so that any
// lookup may hit; the C04 monitor judges every exchange.
func TestC04Histories(t *testing.T) {
	r := run.Start(t, "C04", "histories")
	defer r.Finish()
	n := r.Tiered(3000, 200000)
	for i := 0; i < n; i++ {
		if !r.Mine(i) {
			continue
		}
		c := genC04(r.Rand(i))
		r.Begin(i, c)
		fail := r.Bubble(func() {
			k := 0
			w := sim.NewWorld(sim.WorldOpt{Handler: func(uc *sim.UpCall, req *http.Request) *sim.Reply {
				v := c.VaryAt[min(k, len(c.VaryAt)-1)]
				k++
				// always a full reply: a reload replaces the representation
				return Render(&RespSpec{Status: 200, CC: []string{"max-age=1000000"}, ETag: fmt.Sprintf(`"e%d"`, k), Vary: v, BodySize: 8}, uc.Enter, uc.Serial)
			}})
			defer w.Close()
			ante := false
			varySeen := map[string]bool{}
			for _, st := range c.Steps {
				h := map[string][]string{}
				for kk, vv := range c.Combos[st.Combo] {
					h[kk] = vv
				}
				if st.ReqCC != "" {
					h["Cache-Control"] = []string{st.ReqCC}
				}
				ex := w.Do(sim.ReqSpec{URL: "http://a.example/c04", Header: h})
				r.AddEvaluations(1)
				in := mon.Classify(w, ex)
				vs, a := mon.C04(w, in)
				if a {
					ante = true
					r.Count("from_store_with_vary", 1)
				}
				if ex.Header != nil {
					varySeen[fmt.Sprint(ex.Header.Values("Vary"))] = true
				}
				for _, v := range vs {
					r.Violation(v.Clause, v.Sig, v.Msg, exSummaries(w))
				}
				for _, v := range mon.C10Basic(in) {
					r.CrossObs("C10:"+v.Clause, 1)
				}
				if v3, _, _ := mon.C03(w, in); len(v3) > 0 {
					r.CrossObs("C03", len(v3))
				}
			}
			if len(varySeen) > 1 {
				r.Count("histories_with_changing_vary", 1)
			}
			if ante {
				r.Nontrivial(fmt.Sprintf("%v", c))
				if r.WantSample() {
					r.Sample(map[string]any{"combos": c.Combos, "history": exSummaries(w)})
				}
			}
		})
		if fail != "" {
			r.Violation("bubble", "bubble-failure", "bubble failed: "+fail, c)
		}
	}
	r.Done()
}
