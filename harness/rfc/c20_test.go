package rfc

import (
	"fmt"
	"net/http"
	"runtime"
	"strings"
	"testing"
	"time"

	"verif/harness/run"
	"verif/harness/sim"
)

type c20Case struct {
	Latency    string `json:"latency"`    // "0" | "T-1ms" | "T" | "T+1ms" | "10T" | "never"
	Outcome    string `json:"outcome"`    // 304 | 200 | 200-nostore | 500 | err | body-fail
	Timeout    string `json:"timeout"`    // unset | -1s | 0 | 1ns | 1s | 5s | 1h
	Ctx        string `json:"ctx"`        // background | cancelled-before | cancelled-after | deadline-before-T | deadline-after-T
	Validators string `json:"validators"` // etag | lm | both | none
	Row        int    `json:"row"`        // stale hits in a row
}

func c20Timeout(s string) (*time.Duration, time.Duration) {
	d := func(x time.Duration) *time.Duration { return &x }
	switch s {
	case "30s-then-0", "30s-then--1s":
		return nil, 5 * time.Second // the option is applied twice; the last, non-positive setting falls back to the default
	case "0-then-1s":
		return nil, time.Second
	case "unset":
		return nil, 5 * time.Second
	case "-1s":
		return d(-time.Second), 5 * time.Second
	case "0":
		return d(0), 5 * time.Second
	case "1ns":
		return d(1), 1
	case "1s":
		return d(time.Second), time.Second
	case "5s":
		return d(5 * time.Second), 5 * time.Second
	case "1h":
		return d(time.Hour), time.Hour
	}
	panic(s)
}

func c20Cases() []c20Case {
	var out []c20Case
	for _, lat := range []string{"0", "T-1ms", "T", "T+1ms", "10T", "never"} {
		for _, oc := range []string{"304", "200", "200-nostore", "500", "err", "body-fail"} {
			for _, to := range []string{"unset", "-1s", "0", "1ns", "1s", "5s", "1h", "30s-then-0", "30s-then--1s", "0-then-1s"} {
				for _, cx := range []string{"background", "cancelled-before", "cancelled-after", "deadline-before-T", "deadline-after-T"} {
					for vi, v := range []string{"etag", "lm", "both", "none", "etag-qualified", "both-qualified", "etag-weak"} {
						// validators x row are folded to keep the grid near 8k
						row := 1 + (vi+len(out))%3
						out = append(out, c20Case{lat, oc, to, cx, v, row})
					}
				}
			}
		}
	}
	return out
}

func TestC20(t *testing.T) {
	r := run.Start(t, "C20", "scenario")
	defer r.Finish()
	cases := c20Cases()
	r.SetExhaustive(true)
	for i, c := range cases {
		if !r.Thorough() && r.Rand(i).IntN(10) != 0 {
			continue
		}
		if !r.Mine(i) {
			continue
		}
		r.Begin(i, c)
		fail := r.Bubble(func() { c20Run(r, c) })
		if fail != "" {
			r.Violation("goroutine-left-or-hang", fmt.Sprintf("latency=%s,outcome=%s,ctx=%s", c.Latency, c.Outcome, c.Ctx), "the bubble did not finish cleanly (goroutine left blocked, or hang): "+firstLine(fail), c)
		}
	}
	r.Done()
}

func c20Run(r *run.Runner, c c20Case) { c20RunWith(r, c, -1, "") }

// c20RunWith: faultAt >= 0 makes the faultAt-th store operation after the
// entry went stale fail (or return damaged bytes); it returns the number of
// store operations seen from that point on.
func c20RunWith(r *run.Runner, c c20Case, faultAt int, faultName string) (nops int, kinds []string) {
	opt, T := c20Timeout(c.Timeout)
	var lat time.Duration
	hang := false
	switch c.Latency {
	case "0":
	case "T-1ms":
		lat = T - time.Millisecond
	case "T":
		lat = T
	case "T+1ms":
		lat = T + time.Millisecond
	case "10T":
		lat = 10 * T
	case "never":
		hang = true
	}
	if lat < 0 {
		lat = 0
	}
	const L, W = 10, 100000
	phase := 0
	stored := RespSpec{Status: 200, CC: []string{fmt.Sprintf("max-age=%d, stale-while-revalidate=%d", L, W)}, BodySize: 10}
	if strings.HasPrefix(c.Validators, "etag") || strings.HasPrefix(c.Validators, "both") {
		stored.ETag = `"v"`
	}
	if c.Validators == "etag-weak" {
		stored.ETag = `W/"v"`
	}
	if c.Validators == "lm" || strings.HasPrefix(c.Validators, "both") {
		stored.LastMod = "-1000"
	}
	if strings.HasSuffix(c.Validators, "-qualified") {
		// the validator fields are named by a qualified no-cache: they are not
		// replayed to the client, but the background request still carries them
		stored.CC[0] += `, no-cache="ETag, Last-Modified"`
	}
	var seq []time.Duration
	switch c.Timeout {
	case "30s-then-0":
		seq = []time.Duration{30 * time.Second, 0}
	case "30s-then--1s":
		seq = []time.Duration{30 * time.Second, -time.Second}
	case "0-then-1s":
		seq = []time.Duration{0, time.Second}
	}
	w := sim.NewWorld(sim.WorldOpt{SWRTimeout: opt, SWRTimeouts: seq, Handler: func(uc *sim.UpCall, req *http.Request) *sim.Reply {
		if phase == 0 {
			return Render(&stored, uc.Enter, uc.Serial)
		}
		if faultAt >= 0 && !uc.Background {
			// the fault turned the request into a foreground miss: not this property
			return Render(&stored, uc.Enter, uc.Serial)
		}
		rs := RespSpec{DelayS: lat.Seconds(), Hang: hang}
		switch c.Outcome {
		case "304":
			if uc.Conditional() {
				rs.Status, rs.ETag = 304, stored.ETag
			} else {
				rs = stored
				rs.DelayS, rs.Hang = lat.Seconds(), hang
			}
		case "200":
			rs.Status, rs.CC, rs.BodySize = 200, stored.CC, 12
		case "200-nostore":
			rs.Status, rs.CC, rs.BodySize = 200, []string{"no-store"}, 12
		case "500":
			rs.Status, rs.BodySize = 500, 3
		case "err":
			rs.Err = true
		case "body-fail":
			rs.Status, rs.CC, rs.BodySize, rs.FailBody, rs.FailAt = 200, stored.CC, 50, true, 7
		}
		rep := Render(&rs, uc.Enter, uc.Serial)
		rep.Delay = lat // exact (DelayS is float seconds)
		return rep
	}})
	defer w.Close()
	first := w.Do(sim.ReqSpec{URL: "http://a.example/c20"})
	if first.BodySerial() != "0.0" {
		r.Inconclusive("store phase failed: " + first.Summary())
		return 0, nil
	}
	phase = 1
	time.Sleep(sec(L + 5))
	sig := fmt.Sprintf("latency=%s,outcome=%s,timeout=%s,ctx=%s", c.Latency, c.Outcome, c.Timeout, c.Ctx)
	opsBase := w.Store.NumOps()
	if faultAt >= 0 {
		sig += ",fault=" + faultName
		w.Store.Plan = func(seq int, op, key string) *sim.Fault {
			if seq != opsBase+faultAt {
				return nil
			}
			for _, f := range c10Faults {
				if f.Name == faultName && (f.Ops == "*" || f.Ops == op) {
					var orig []byte
					if op == "get" {
						orig, _ = w.Store.Inner.Get(key)
					}
					return f.Make(orig)
				}
			}
			return nil
		}
	}
	defer func() {
		for _, o := range w.Store.Ops(opsBase) {
			kinds = append(kinds, o.Op)
		}
		nops = len(kinds)
	}()
	var exs []*sim.Exchange
	for k := 0; k < c.Row; k++ {
		spec := sim.ReqSpec{URL: "http://a.example/c20"}
		var callerEnd time.Duration = -1 // when the caller's context ends, relative to the call (-1 never)
		switch c.Ctx {
		case "cancelled-before":
			spec.CancelBefore = true
			callerEnd = 0
		case "cancelled-after":
			spec.CancelAfter = true
			callerEnd = 0
		case "deadline-before-T":
			spec.Deadline = max(T/2, 1)
			callerEnd = spec.Deadline
		case "deadline-after-T":
			spec.Deadline = 2*T + time.Second
			callerEnd = spec.Deadline
		}
		ex := w.Do(spec)
		exs = append(exs, ex)
		r.AddEvaluations(1)
		_ = callerEnd
		if k > 0 && (lat == 0 && !hang) {
			break // the first background call may already have refreshed the entry
		}
	}
	// let everything finish: beyond the timeout, the latency and the caller deadline
	time.Sleep(10*T + 2*time.Hour)
	w.Settle(nil, 0)
	obs := exSummaries(w)
	judged := false
	for k, ex := range exs {
		callerEnd := time.Duration(-1)
		switch c.Ctx {
		case "cancelled-before", "cancelled-after":
			callerEnd = 0
		case "deadline-before-T":
			callerEnd = max(T/2, 1)
		case "deadline-after-T":
			callerEnd = 2*T + time.Second
		}
		if k > 0 && exs[0].Header != nil && ex.CacheStatus() == "HIT" {
			continue // refreshed in between: not a stale hit
		}
		// foreground
		if ex.Err != nil || ex.Header == nil {
			if c.Ctx == "cancelled-before" && ex.Err != nil && ex.Panic == "" {
				r.Count("foreground_refused_cancelled_request", 1)
				continue
			}
			r.Violation("foreground-failed", sig, "stale-while-revalidate hit failed in the foreground: "+ex.Summary(), obs)
			continue
		}
		if ex.CacheStatus() != "STALE" || ex.BodySerial() != "0.0" {
			if k > 0 || faultAt >= 0 {
				continue // (with a store fault in the foreground the request is a miss: not this property)
			}
			r.Violation("foreground-not-stale", sig, "expected the stale stored response marked STALE; "+ex.Summary(), obs)
			continue
		}
		judged = true
		r.Count("stale_hits_judged", 1)
		if d := ex.TReturn.Sub(ex.TCall); d != 0 {
			r.Violation("foreground-waited", sig, fmt.Sprintf("foreground call took %v of virtual time; %s", d, ex.Summary()), obs)
		}
		calls := ex.Calls()
		if len(calls) != 1 {
			r.Violation("revalidation-count", sig+fmt.Sprintf(",n=%d", len(calls)), fmt.Sprintf("%d upstream calls for one stale hit (expected exactly 1); %s", len(calls), ex.Summary()), obs)
			continue
		}
		bc := calls[0]
		if !bc.Background {
			r.Violation("revalidation-not-background", sig, "the revalidation ran on the caller's goroutine; "+ex.Summary(), obs)
		}
		if (stored.ETag != "" && bc.Header.Get("If-None-Match") != stored.ETag) || (stored.LastMod != "" && bc.Header.Get("If-Modified-Since") == "") {
			r.Violation("revalidation-unconditional", sig+",validators="+c.Validators, fmt.Sprintf("background request lacks the stored validators: %v; %s", bc.Header, ex.Summary()), obs)
		}
		if stored.ETag == "" && stored.LastMod == "" && bc.Conditional() {
			r.Violation("revalidation-invented-validator", sig, fmt.Sprintf("background request is conditional without stored validators: %v", bc.Header), obs)
		}
		// cancellation instant
		answeredAt := time.Duration(-1)
		if !hang {
			answeredAt = lat
		}
		// the background request is bounded by the configured timeout only: it
		// outlives the caller's use of the stale response and the caller's context
		limit := T
		_ = callerEnd
		took := bc.Exit.Sub(ex.TReturn)
		switch {
		case answeredAt >= 0 && answeredAt < limit:
			if took != answeredAt {
				r.Violation("background-timing", sig, fmt.Sprintf("origin answered after %v but the call lasted %v; %s", answeredAt, took, ex.Summary()), obs)
			}
		case answeredAt == limit:
			// tie between the reply and the cancellation: either is fine
		default:
			if took != limit {
				r.Violation("cancel-instant", sig, fmt.Sprintf("background request was released after %v, expected cancellation when the timeout %v elapsed (the caller's context ended at %v: it must not cut the revalidation short); %s", took, T, callerEnd, ex.Summary()), obs)
			} else {
				r.Count("cancellations_at_exact_instant", 1)
			}
		}
	}
	// nothing of the repository may be left running
	buf := make([]byte, 1<<20)
	n := runtime.Stack(buf, true)
	gs := strings.Split(string(buf[:n]), "\n\n")
	for _, g := range gs[1:] { // gs[0] is the current goroutine
		if strings.Contains(g, "github.com/bartventer/httpcache.") || strings.Contains(g, "github.com/bartventer/httpcache/internal") {
			r.Violation("goroutine-left", sig, "a goroutine with a repository frame is still alive after the background request finished and the bubble quiesced:\n"+firstLines(g, 12), obs)
			break
		}
	}
	if judged {
		r.Nontrivial(fmt.Sprintf("%+v", c))
	}
	if r.WantSample() && judged {
		r.Sample(map[string]any{"case": c, "history": obs})
	}
	if judged && faultAt >= 0 {
		r.Count("stale_hits_judged_with_a_store_fault", 1)
	}
	return
}

// TestC20Faults: the same judgments while one store operation after the entry
// went stale - foreground or background - fails or returns damaged bytes.
// When the foreground still serves the stale response, everything the
// statement says about the background request (exactly one, conditional
// whenever validators are stored, released at the right instant, no goroutine
// left) must hold whatever the store does.
func TestC20Faults(t *testing.T) {
	r := run.Start(t, "C20", "store-faults")
	defer r.Finish()
	idx := 0
	for _, lat := range []string{"0", "T-1ms", "10T", "never"} {
		for _, oc := range []string{"304", "200", "err", "500"} {
			for _, v := range []string{"etag", "lm", "both", "none", "etag-weak"} {
				for _, cx := range []string{"background", "cancelled-after"} {
					c := c20Case{lat, oc, "unset", cx, v, 1}
					if !r.Thorough() && (idx+len(lat)+len(oc)+len(v))%4 != 0 {
						idx++
						continue
					}
					idx++
					var n int
					var kinds []string
					r.Bubble(func() { n, kinds = c20RunWith(r, c, 1<<30, "") })
					for j := 0; j < n; j++ {
						for fi, fname := range []string{"error-before", "error-after", "garbage", "truncated-header", "json-null", "empty"} {
							var f *c10Fault
							for k := range c10Faults {
								if c10Faults[k].Name == fname {
									f = &c10Faults[k]
								}
							}
							if f.Ops != "*" && f.Ops != kinds[j] {
								continue
							}
							ci := idx*1000 + j*10 + fi
							if !r.Mine(ci) {
								continue
							}
							r.Begin(ci, map[string]any{"case": c, "fault_at_store_op_after_stale": j, "op": kinds[j], "fault": fname})
							if fail := r.Bubble(func() { c20RunWith(r, c, j, fname) }); fail != "" {
								r.Violation("goroutine-left-or-hang", fmt.Sprintf("latency=%s,outcome=%s,ctx=%s,fault=%s", c.Latency, c.Outcome, c.Ctx, fname), "the bubble did not finish cleanly (goroutine left blocked, or hang): "+firstLine(fail), c)
							}
							r.Count("fault:"+fname, 1)
						}
					}
				}
			}
		}
	}
	r.Done()
}

func firstLines(s string, n int) string {
	l := strings.Split(s, "\n")
	if len(l) > n {
		l = l[:n]
	}
	return strings.Join(l, "\n")
}
