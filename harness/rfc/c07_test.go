package rfc

import (
	"fmt"
	"math/rand/v2"
	"net/http"
	"net/url"
	"testing"
	"time"

	"verif/harness/mon"
	"verif/harness/oracle"
	"verif/harness/run"
	"verif/harness/sim"
)

type c07Case struct {
	Method    string   `json:"method"`
	Status    int      `json:"status"`
	Target    string   `json:"target"`     // spelling used for storing
	TargetVia string   `json:"target_via"` // spelling used for the unsafe request
	Variants  int      `json:"variants"`
	Vary      string   `json:"vary"`
	LocHeader string   `json:"loc_header"`          // Location | Content-Location | both
	Loc       string   `json:"loc"`                 // value as sent
	Loc2      string   `json:"loc2,omitempty"`      // Content-Location when both
	InFlight  string   `json:"in_flight,omitempty"` // "" | "304" | "200": a background revalidation is in flight during the unsafe request
	Others    []string `json:"others"`              // other stored URIs (absolute)
}

var c07Methods = []string{"POST", "PUT", "DELETE", "PATCH", "PROPPATCH", "MKCOL", "COPY", "MOVE", "LOCK", "UNLOCK", "ACL", "FOO", "PURGE", "post", "get", "Head", "options", "Report", "search", "Trace", "gET"}
var c07Statuses = []int{200, 201, 204, 301, 302, 303, 307, 400, 404, 500}
var c07Locs = []string{"", "item", "../o2", "?page=2", "/abs", "./r1", "http://A.EXAMPLE:80/abs", "//a.example/abs", "https://a.example/abs", "http://b.example/abs", "http://a.example:8080/abs", "http://[::1/bad", "/abs#frag", "/%61bs", "/x/%2e%2e/abs"}
var c07Targets = [][2]string{
	{"http://a.example/coll/r1", "http://a.example/coll/r1"},
	{"http://a.example/coll/r1", "http://A.EXAMPLE:80/coll/r1"},
	{"http://a.example/coll/r1", "http://a.example/coll/x/../r1"},
	{"http://a.example/coll/r1", "http://a.example/coll/%721#f"},
	{"http://a.example/coll/r1?q=1", "http://a.example/coll/r1?q=1"},
	{"http://a.example/coll/", "http://a.example/coll/"},
	{"http://a.example/coll/r1", "http://a.example/coll/x/%2e%2E/r1"},
	{"http://a.example/coll/r1", "http://a.example/%2e/coll/.%2e/coll/r1"},
	{"http://a.example/coll/r1", "http://a.example/coll/x/y/%2E%2E/../r1"},
	{"http://[fe80::1%25eth0]/coll/r1", "HTTP://[FE80::1%25eth0]:80/coll/./r%31#frag"},
}

func genC07(r *rand.Rand) c07Case {
	t := pick(r, c07Targets)
	c := c07Case{Method: pick(r, c07Methods), Status: pick(r, c07Statuses), Target: t[0], TargetVia: t[1], Variants: 1 + r.IntN(4),
		Vary: pick(r, []string{"", "X-A", "X-A, X-B"}), LocHeader: pick(r, []string{"Location", "Content-Location", "both"}), Loc: pick(r, c07Locs)}
	if chance(r, 0.5) {
		c.Status = pick(r, []int{200, 201, 204, 303})
	}
	if c.LocHeader == "both" {
		c.Loc2 = pick(r, c07Locs)
	}
	if chance(r, 0.15) {
		c.InFlight = pick(r, []string{"304", "200"})
	}
	return c
}

func TestC07(t *testing.T) {
	r := run.Start(t, "C07", "scenario")
	defer r.Finish()
	n := r.Tiered(2000, 60000)
	for i := 0; i < n; i++ {
		if !r.Mine(i) {
			continue
		}
		c := genC07(r.Rand(i))
		r.Begin(i, c)
		if fail := r.Bubble(func() { c07Run(r, c) }); fail != "" {
			r.Violation("bubble", "bubble-failure", "bubble failed: "+fail, c)
		}
	}
	r.Done()
}

func c07Run(r *run.Runner, c c07Case) {
	target, _ := url.Parse(c.Target)
	// URIs named by the location values (resolved against the request target as sent)
	via, _ := url.Parse(c.TargetVia)
	var named []*url.URL
	for _, l := range []string{c.Loc, c.Loc2} {
		if l == "" {
			continue
		}
		lu, err := url.Parse(l)
		if err != nil {
			continue
		}
		named = append(named, via.ResolveReference(lu))
	}
	bgMode := ""
	unsafeSeen := false
	w := sim.NewWorld(sim.WorldOpt{Handler: func(uc *sim.UpCall, req *http.Request) *sim.Reply {
		if req.Method != "GET" {
			unsafeSeen = true
			rs := RespSpec{Status: c.Status, BodySize: 3, Extra: map[string][]string{}}
			switch c.LocHeader {
			case "Location":
				if c.Loc != "" {
					rs.Extra["Location"] = []string{c.Loc}
				}
			case "Content-Location":
				if c.Loc != "" {
					rs.Extra["Content-Location"] = []string{c.Loc}
				}
			default:
				if c.Loc != "" {
					rs.Extra["Location"] = []string{c.Loc}
				}
				if c.Loc2 != "" {
					rs.Extra["Content-Location"] = []string{c.Loc2}
				}
			}
			return Render(&rs, uc.Enter, uc.Serial)
		}
		var vary []string
		if c.Vary != "" {
			vary = []string{c.Vary}
		}
		cc := "max-age=100000"
		if c.InFlight != "" {
			cc = "max-age=10, stale-while-revalidate=100000"
		}
		if uc.Background && bgMode != "" {
			// the in-flight background validation: answers late
			if bgMode == "304" && uc.Conditional() {
				rs := RespSpec{Status: 304, ETag: `"e"`, Vary: vary, CC: []string{"max-age=100000"}, DelayS: 5}
				return Render(&rs, uc.Enter, uc.Serial)
			}
			rs := RespSpec{Status: 200, CC: []string{"max-age=100000"}, ETag: `"e"`, Vary: vary, BodySize: 6, DelayS: 5,
				Extra: map[string][]string{"X-Old-Version": {"1"}}}
			return Render(&rs, uc.Enter, uc.Serial)
		}
		return Render(&RespSpec{Status: 200, CC: []string{cc}, ETag: `"e"`, Vary: vary, BodySize: 6}, uc.Enter, uc.Serial)
	}})
	defer w.Close()
	var invs []*mon.Invalidation
	visit := func(ex *sim.Exchange) *mon.Info {
		in := mon.Classify(w, ex)
		for _, v := range mon.C07Neg(w, in, invs) {
			sig := v.Sig + fmt.Sprintf(",status=%dxx,inflight=%s", c.Status/100, c.InFlight)
			if v.Clause == "named-survived" {
				sig += ",loc=" + locClass(c.Loc) + "/" + locClass(c.Loc2)
			}
			r.Violation(v.Clause, sig, v.Msg, exSummaries(w))
		}
		for _, v := range mon.C10Basic(in) {
			r.CrossObs("C10:"+v.Clause, 1)
		}
		return in
	}
	hdrs := func(v int) map[string][]string {
		return map[string][]string{"X-A": {fmt.Sprint(v)}, "X-B": {fmt.Sprint(v % 2)}}
	}
	// stored set: the target's variants, every named URI, and an unrelated one
	type storedURI struct {
		u    string
		tok  map[int]string
		kind string // target | named-same-origin | named-cross-origin | unrelated
	}
	var stored []*storedURI
	addStored := func(u, kind string) {
		for _, s := range stored {
			if s.u == u {
				return
			}
		}
		stored = append(stored, &storedURI{u: u, tok: map[int]string{}, kind: kind})
	}
	addStored(c.Target, "target")
	for _, nu := range named {
		k := "named-cross-origin"
		if oracle.SameOrigin(via, nu) {
			k = "named-same-origin"
		}
		if oracle.CompareURI(nu, target) == oracle.Equivalent {
			continue
		}
		if nu.Scheme != "http" && nu.Scheme != "https" {
			continue
		}
		s := *nu
		s.Fragment = ""
		addStored(s.String(), k)
	}
	addStored("http://a.example/unrelated", "unrelated")
	for _, s := range stored {
		for v := 0; v < c.Variants; v++ {
			ex := w.Do(sim.ReqSpec{URL: s.u, Header: hdrs(v)})
			visit(ex)
			s.tok[v] = ex.BodySerial()
		}
	}
	if c.InFlight != "" {
		// make the target stale-within-SWR and start a background validation that answers late
		time.Sleep(20 * time.Second)
		bgMode = c.InFlight
		ex := w.Do(sim.ReqSpec{URL: c.Target, Header: hdrs(0)})
		visit(ex)
		if len(ex.BgCalls()) != 1 {
			r.Inconclusive("in-flight setup did not start a background validation: " + ex.Summary())
			return
		}
	}
	// the unsafe request
	ux := w.Do(sim.ReqSpec{URL: c.TargetVia, Method: c.Method})
	visit(ux)
	if !unsafeSeen {
		r.Violation("unsafe-not-forwarded", "method="+c.Method, "the unsafe request did not reach the origin; "+ux.Summary(), exSummaries(w))
		return
	}
	if inv := mon.IsInvalidation(ux); inv != nil {
		invs = append(invs, inv)
		r.Count("successful_unsafe", 1)
	} else {
		r.Count("unsuccessful_unsafe", 1)
	}
	if c.InFlight != "" {
		time.Sleep(10 * time.Second) // the late background reply arrives
		w.Settle(nil, 0)
		bgMode = ""
	}
	// now GET every stored variant
	for _, s := range stored {
		for v := 0; v < c.Variants; v++ {
			ex := w.Do(sim.ReqSpec{URL: s.u, Header: hdrs(v)})
			in := visit(ex)
			r.AddEvaluations(1)
			// positive half: cross-origin named and unrelated URIs stay cached
			if (s.kind == "named-cross-origin" || s.kind == "unrelated") && c.InFlight == "" {
				r.Count("positive_checks", 1)
				if !in.FromStore || len(ex.Calls()) > 0 || ex.BodySerial() != s.tok[v] {
					r.Violation("other-origin-evicted", fmt.Sprintf("kind=%s,loc=%s", s.kind, locClass(c.Loc)), fmt.Sprintf("entry for %s (%s) is no longer served from the store after the %s %d with Location %q / %q; %s", s.u, s.kind, c.Method, c.Status, c.Loc, c.Loc2, ex.Summary()), exSummaries(w))
				}
			}
		}
	}
	if len(invs) > 0 {
		r.Nontrivial(fmt.Sprintf("%+v", c))
	}
	if r.WantSample() && len(invs) > 0 {
		r.Sample(map[string]any{"case": c, "history": exSummaries(w)})
	}
}

func locClass(l string) string {
	switch {
	case l == "":
		return "none"
	case len(l) > 7 && (l[:7] == "http://" || l[:8] == "https://"):
		return "absolute"
	case len(l) > 2 && l[:2] == "//":
		return "scheme-relative"
	case l[0] == '/':
		return "absolute-path"
	case l[0] == '?':
		return "query-only"
	}
	return "relative-path"
}
