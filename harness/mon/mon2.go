package mon

import (
	"bytes"
	"fmt"
	"net/http"
	"net/url"
	"strings"

	"verif/harness/oracle"
	"verif/harness/sim"
)

// ReqURL returns the URL of the request as the client built it.
func ReqURL(spec sim.ReqSpec) *url.URL {
	if spec.URLObj != nil {
		return spec.URLObj
	}
	u, err := url.Parse(spec.URL)
	if err != nil {
		return &url.URL{}
	}
	return u
}

// SpecMethod is the method the request means ("" and the struct-literal
// empty method both mean GET).
func SpecMethod(spec sim.ReqSpec) string {
	if spec.Method == "" || spec.Method == "<empty>" {
		return "GET"
	}
	return spec.Method
}

func isPlainGET(spec sim.ReqSpec) bool {
	return SpecMethod(spec) == "GET" && http.Header(spec.Header).Get("Range") == ""
}

// ---- C03 -----------------------------------------------------------------

// C03: a from-store result must come from a GET for an equivalent URI and go
// to a plain GET.
func C03(w *sim.World, in *Info) (vs []V, antecedent bool, class string) {
	ex := in.Ex
	if !in.FromStore {
		return nil, false, ""
	}
	antecedent = true
	if !isPlainGET(ex.Spec) {
		what := ex.Spec.Method
		if SpecMethod(ex.Spec) == "GET" {
			what = "GET+Range"
			if ex.Spec.Method == "<empty>" {
				what = "empty-method+Range"
			}
		}
		vs = append(vs, V{"C03", "not-plain-get", what, "a request that is not a plain GET was answered from the store: " + ex.Summary()})
	}
	src := in.Mb
	if src == nil {
		src = in.Mh
	}
	if src == nil {
		return vs, true, "unknown-source"
	}
	srcEx := w.Exchange(src.Exch)
	if srcEx == nil {
		return vs, true, "unknown-source"
	}
	if SpecMethod(srcEx.Spec) != "GET" {
		vs = append(vs, V{"C03", "stored-from-non-get", srcEx.Spec.Method, "response obtained by a " + srcEx.Spec.Method + " was reused: " + ex.Summary()})
	}
	a, b := ReqURL(srcEx.Spec), ReqURL(ex.Spec)
	if su, err := url.Parse(src.URL); err == nil && su.Host != "" {
		a = su // what the origin was actually asked for
	}
	c := oracle.CompareURI(a, b)
	if c == oracle.Distinct {
		vs = append(vs, V{"C03", "foreign-uri", diffClass(a, b),
			fmt.Sprintf("response fetched for %q was returned for the distinct URI %q (keys %q vs %q); %s", a.String(), b.String(), oracle.KeyOf(a).Strict, oracle.KeyOf(b).Strict, ex.Summary())})
	}
	return vs, true, c.String()
}

func diffClass(a, b *url.URL) string {
	ka, kb := oracle.KeyOf(a), oracle.KeyOf(b)
	switch {
	case !strings.EqualFold(a.Scheme, b.Scheme):
		return "scheme"
	case !strings.EqualFold(a.Hostname(), b.Hostname()):
		if strings.Contains(a.Host, "[") || strings.Contains(b.Host, "[") {
			return "host-ipv6"
		}
		return "host"
	case !oracle.SameOrigin(a, b):
		return "port"
	}
	pa := strings.SplitN(strings.SplitN(ka.Strict, "://", 2)[1], "?", 2)
	pb := strings.SplitN(strings.SplitN(kb.Strict, "://", 2)[1], "?", 2)
	if pa[0] != pb[0] {
		if ka.RawNonASCII || kb.RawNonASCII {
			return "path-nonascii"
		}
		return "path"
	}
	if ka.RawNonASCII || kb.RawNonASCII {
		return "query-nonascii"
	}
	return "query"
}

// ---- C04 -----------------------------------------------------------------

// C04: a from-store result without validation must match the variant.
func C04(w *sim.World, in *Info) (vs []V, antecedent bool) {
	ex := in.Ex
	if !in.FromStore || in.Got304 {
		return nil, false
	}
	vary := ex.Header.Values("Vary")
	if len(vary) == 0 {
		return nil, false
	}
	antecedent = true
	src := in.Mb
	if in.Mh != nil && in.Mh.Reply != nil && in.Mh.Reply.Status == 304 {
		// a 304 confirmed the stored representation for the request that
		// carried the validation: that request's values select the variant now
		src = in.Mh
	}
	if src == nil {
		return nil, true
	}
	fields, star := oracle.VariantMismatch(vary, src.Header, http.Header(canonHeader(ex.Spec.Header)))
	if star {
		vs = append(vs, V{"C04", "vary-star", starShape(vary), fmt.Sprintf("response with Vary %q reused without validation; %s", vary, ex.Summary())})
	}
	if len(fields) > 0 {
		vs = append(vs, V{"C04", "variant-mismatch", fmt.Sprintf("nvary=%d,lines=%d", len(strings.Split(strings.Join(vary, ","), ",")), len(vary)),
			fmt.Sprintf("stored response (Vary %q) fetched with %v was returned to a request with %v: they differ on %v; %s",
				vary, pickFields(src.Header, vary), pickFields(http.Header(canonHeader(ex.Spec.Header)), vary), fields, ex.Summary())})
	}
	return vs, true
}

func starShape(vary []string) string {
	if len(vary) == 1 && strings.TrimSpace(vary[0]) == "*" {
		return "star-alone"
	}
	return "star-member"
}

func canonHeader(h map[string][]string) map[string][]string {
	out := map[string][]string{}
	for k, v := range h {
		ck := http.CanonicalHeaderKey(k)
		out[ck] = append(out[ck], v...)
	}
	return out
}

func pickFields(h http.Header, vary []string) map[string][]string {
	fs, _ := oracle.VaryFields(vary)
	out := map[string][]string{}
	for _, f := range fs {
		out[f] = h.Values(f)
	}
	return out
}

// ---- C06 -----------------------------------------------------------------

var repoHeuristic = map[int]bool{200: true, 203: true, 206: true, 301: true, 304: true, 404: true, 405: true, 410: true, 414: true, 501: true, 308: true}
var rfcHeuristic = map[int]bool{200: true, 203: true, 204: true, 206: true, 300: true, 301: true, 308: true, 404: true, 405: true, 410: true, 414: true, 501: true}

var repoUnderstood = map[int]bool{200: true, 203: true, 301: true, 304: true, 404: true, 405: true, 410: true, 414: true, 501: true, 308: true}

// registered status codes: anything else is "not understood" by every list
var registeredStatus = func() map[int]bool {
	m := map[int]bool{}
	for c := 100; c < 600; c++ {
		if http.StatusText(c) != "" {
			m[c] = true
		}
	}
	return m
}()

// MustNotStore reports why nothing of the reply to call may be stored ("" if
// storing is allowed or the case is debatable).
func MustNotStore(c *sim.UpCall) string {
	if c.Reply == nil || c.Reply.Err != nil || c.Reply.Hang {
		return ""
	}
	rep := c.Reply
	reqCC := oracle.ParseCC(c.Header.Values("Cache-Control"))
	resCC := oracle.ParseCC(rep.Header.Values("Cache-Control"))
	switch {
	case c.Method != "GET":
		return "method-" + c.Method
	case c.Header.Get("Range") != "":
		return "range-request"
	case reqCC.Has("no-store"):
		return "request-no-store"
	case resCC.Has("no-store"):
		return "response-no-store"
	case rep.Status < 200:
		return "status-1xx"
	case rep.Status == 206:
		return "status-206"
	case rep.Status == 304:
		return "status-304"
	case rep.FailBody:
		return "body-failed"
	case resCC.Has("must-understand") && !repoUnderstood[rep.Status] && !rfcHeuristic[rep.Status]:
		// "understood" = what this cache documents as understood (its
		// isStatusUnderstood list) or what RFC 9111 defines as cacheable by default
		return "must-understand-status-not-understood"
	}
	explicit := resCC.Has("max-age") || resCC.Has("s-maxage") || resCC.Has("public") || resCC.Has("private") || len(rep.Header.Values("Expires")) > 0
	if !explicit && !repoHeuristic[rep.Status] && !rfcHeuristic[rep.Status] {
		return "no-freshness-nonheuristic-status"
	}
	return ""
}

// C06 scans the store writes of the exchange.
func C06(w *sim.World, in *Info) (vs []V, nWrites int) {
	ex := in.Ex
	for _, op := range ex.StoreOps {
		if op.Op != "set" {
			continue
		}
		nWrites++
		val := op.Value
		// an entry whose own status line is 304
		if i := bytes.IndexByte(val, '\n'); i > 0 && bytes.HasPrefix(val[i+1:], []byte("HTTP/")) {
			line := val[i+1:]
			if j := bytes.IndexByte(line, '\n'); j > 0 {
				line = line[:j]
			}
			parts := strings.Fields(string(line))
			if len(parts) >= 2 && (parts[1] == "304" || parts[1] == "206" || strings.HasPrefix(parts[1], "1")) {
				vs = append(vs, V{"C06", "stored-entry-status", "status-" + parts[1], fmt.Sprintf("an entry with status %s was written to the store (key %q); %s", parts[1], op.Key, ex.Summary())})
			}
		}
		bodySer := sim.ParseBody(bodyOf(val)).Serial
		for _, s := range sim.FindSerials(val) {
			c := w.Call(s)
			if c == nil || c.Reply == nil {
				continue
			}
			why := MustNotStore(c)
			if why == "" {
				// the client's own request forbids storing whatever the cache fetches
				// on its behalf (e.g. a background validation started by it)
				if cex := w.Exchange(c.Exch); cex != nil && SpecMethod(cex.Spec) == "GET" &&
					oracle.ParseCC(http.Header(cex.Spec.Header).Values("Cache-Control")).Has("no-store") {
					why = "client-request-no-store"
				}
			}
			if why == "" {
				continue
			}
			if why == "status-304" && s != bodySer {
				// header fields of a 304 merged into a stored entry: legitimate
				continue
			}
			vs = append(vs, V{"C06", "stored", why, fmt.Sprintf("store write (key %q, %d bytes) contains message %s which must not be stored (%s); %s", op.Key, len(val), s, why, ex.Summary())})
		}
	}
	// an unconditional GET answered 304
	if in.HasResp && ex.Status == 304 && isPlainGET(ex.Spec) {
		cli := http.Header(ex.Spec.Header)
		if cli.Get("If-None-Match") == "" && cli.Get("If-Modified-Since") == "" {
			own := false
			for _, c := range in.FgCalls {
				if c.Reply != nil && c.Reply.Status == 304 && !c.Conditional() {
					own = true
				}
			}
			if !own {
				vs = append(vs, V{"C06", "unconditional-304", fmt.Sprintf("fromstore=%v", in.FromStore), "an unconditional GET was answered with a 304; " + ex.Summary()})
			}
		}
	}
	return vs, nWrites
}

func bodyOf(val []byte) []byte {
	if i := bytes.Index(val, []byte("\r\n\r\n")); i >= 0 {
		return val[i+4:]
	}
	return nil
}

// ---- C07 (negative half) ---------------------------------------------------

// Invalidation is a successful unsafe exchange.
type Invalidation struct {
	Exch   int
	Target *url.URL
	Named  []*url.URL // same-origin URIs named by Location / Content-Location
	Method string
	Status int
}

var safeMethods = map[string]bool{"GET": true, "HEAD": true, "OPTIONS": true, "TRACE": true, "PROPFIND": true, "REPORT": true, "SEARCH": true, "PRI": true, "QUERY": true}

// IsInvalidation inspects an exchange.
func IsInvalidation(ex *sim.Exchange) *Invalidation {
	m := SpecMethod(ex.Spec)
	if safeMethods[m] || ex.Header == nil || ex.Status < 200 || ex.Status > 399 {
		return nil
	}
	target := ReqURL(ex.Spec)
	inv := &Invalidation{Exch: ex.ID, Target: target, Method: m, Status: ex.Status}
	// use the origin's reply headers (what the response through the transport carried)
	for _, hn := range []string{"Location", "Content-Location"} {
		for _, v := range ex.Header.Values(hn) {
			lu, err := url.Parse(v)
			if err != nil {
				continue
			}
			abs := target.ResolveReference(lu)
			if oracle.SameOrigin(target, abs) {
				inv.Named = append(inv.Named, abs)
			}
		}
	}
	return inv
}

// C07Neg: a response stored before a successful unsafe request for an
// equivalent (or named same-origin) URI must not be returned again unvalidated.
func C07Neg(w *sim.World, in *Info, invs []*Invalidation) (vs []V) {
	ex := in.Ex
	if !in.FromStore || in.Got304 || in.Mb == nil {
		return nil
	}
	cur := ReqURL(ex.Spec)
	for _, inv := range invs {
		if inv.Exch >= ex.ID || in.Mb.Exch >= inv.Exch {
			continue
		}
		// A background reply that was requested before the unsafe request and
		// arrived after it still carries pre-invalidation content: the cache
		// drops it (its entry is gone, or a response requested later is stored).
		// Only a virtual-time tie is not judged: another response for the URI
		// requested after the invalidation at the very instant the background
		// request had started - "requested later" cannot be told then.
		if in.Mb.Background {
			tie := false
			for _, e := range w.Exchanges {
				if e.ID <= inv.Exch || e.ID >= ex.ID {
					continue
				}
				for _, c2 := range e.Calls() {
					if c2 != in.Mb && !c2.Background && c2.Enter.Equal(in.Mb.Enter) {
						if u2, err := url.Parse(c2.URL); err == nil && oracle.CompareURI(u2, cur) == oracle.Equivalent {
							tie = true
						}
					}
				}
			}
			if tie {
				continue
			}
		}
		// was the body's entry refreshed (200) after the invalidation? Mb is the body message, so no.
		if oracle.CompareURI(cur, inv.Target) == oracle.Equivalent {
			vs = append(vs, V{"C07", "target-survived", "method=" + methodClass(inv.Method), fmt.Sprintf("response stored in exchange %d survived the %s %d of exchange %d for the same target and was returned unvalidated; %s", in.Mb.Exch, inv.Method, inv.Status, inv.Exch, ex.Summary())})
		}
		for _, n := range inv.Named {
			if oracle.CompareURI(cur, n) == oracle.Equivalent {
				vs = append(vs, V{"C07", "named-survived", "method=" + methodClass(inv.Method), fmt.Sprintf("response stored in exchange %d for %s survived the %s %d of exchange %d whose Location/Content-Location names it; %s", in.Mb.Exch, cur, inv.Method, inv.Status, inv.Exch, ex.Summary())})
			}
		}
	}
	return vs
}

func methodClass(m string) string {
	switch m {
	case "POST", "PUT", "DELETE", "PATCH":
		return "common"
	case "PROPPATCH", "MKCOL", "COPY", "MOVE", "LOCK", "UNLOCK", "ACL":
		return "webdav"
	}
	return "unknown-token"
}

// ---- C05 (body fidelity on every exchange) ----------------------------------

// C05Body: a response that names an origin message carries exactly that
// message's body bytes; a from-store response is not emptied.
func C05Body(w *sim.World, in *Info) (vs []V, antecedent bool) {
	ex := in.Ex
	if !in.HasResp || SpecMethod(ex.Spec) == "HEAD" {
		return nil, false
	}
	// a reply whose body stream fails part-way and that is handed on to the
	// client: what did arrive comes first, then the failure
	for _, c := range in.FgCalls {
		if c.Reply == nil || !c.Reply.FailBody || c.Reply.NoBody || in.FromStore || ex.XMsg() != c.Serial {
			continue
		}
		want := c.Body()[:min(c.Reply.FailAt, len(c.Body()))]
		if !bytes.Equal(ex.Body, want) || ex.BodyErr == "" {
			vs = append(vs, V{"C05", "failed-body-prefix-lost", "origin-reply" + sigPath(in), fmt.Sprintf("the origin delivered %d bytes of message %s before its body failed; the client received %d bytes (read error %q); %s", len(want), c.Serial, len(ex.Body), ex.BodyErr, ex.Summary())})
		}
		return vs, true
	}
	if in.Mb != nil && in.Mb.Reply != nil && !in.Mb.Reply.FailBody {
		antecedent = true
		want := in.Mb.Body()
		if ex.BodyErr != "" || !bytes.Equal(ex.Body, want) {
			where := "origin-reply"
			if in.FromStore {
				where = "from-store"
			}
			vs = append(vs, V{"C05", "body-differs", where + sigPath(in), fmt.Sprintf("body of message %s came back with %d bytes (read error %q), the origin sent %d; %s", in.Mb.Serial, len(ex.Body), ex.BodyErr, len(want), ex.Summary())})
		}
		return vs, true
	}
	if in.FromStore && len(ex.Body) == 0 && ex.Status != 204 && ex.Status != 304 {
		// which message's body should this be? the latest earlier non-304 reply to a GET for an equivalent URI
		cur := ReqURL(ex.Spec)
		var last *sim.UpCall
		for _, e := range w.Exchanges {
			if e.ID >= ex.ID {
				break
			}
			for _, c := range e.Calls() {
				if c.Reply == nil || c.Reply.Err != nil || c.Reply.Status == 304 || c.Method != "GET" {
					continue
				}
				if u, err := url.Parse(c.URL); err == nil && oracle.CompareURI(u, cur) == oracle.Equivalent && c.Reply.Status == ex.Status {
					last = c
				}
			}
		}
		if last != nil && len(last.Body()) > 0 && !last.Reply.FailBody {
			vs = append(vs, V{"C05", "body-lost", "from-store" + sigPath(in), fmt.Sprintf("stored response served with an empty body; the origin's latest %d reply for this URI had %d bytes; %s", ex.Status, len(last.Body()), ex.Summary())})
			return vs, true
		}
	}
	return nil, false
}
