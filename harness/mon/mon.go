// Package mon holds the universal safety monitors: deterministic oracles over
// one recorded exchange (plus the world's history) that flag only events that
// are forbidden under every reasonable reading of a property.
package mon

import (
	"bytes"
	"fmt"
	"net/http"
	"net/url"
	"strings"
	"time"

	"verif/harness/oracle"
	"verif/harness/sim"
)

// V is a violation found by a monitor.
type V struct {
	Prop   string
	Clause string
	Sig    string
	Msg    string
}

// Info is the classification of an exchange that all monitors share.
type Info struct {
	Ex          *sim.Exchange
	HasResp     bool
	FromStore   bool
	Mb, Mh      *sim.UpCall // body message, header-block message
	FgCalls     []*sim.UpCall
	BgCalls     []*sim.UpCall
	Got304      bool // a foreground call of this exchange was answered 304
	FgFailed    bool // a foreground call failed (error or 5xx)
	ReqCC       oracle.CC
	StCC        oracle.CC // Cache-Control of the effective stored header block
	Stored      oracle.Stored
	Age         oracle.Bounds // current age at the call instant
	AgeRet      oracle.Bounds // current age at the return instant
	Life        oracle.Bounds
	Known       bool // Mh found and date unambiguous: age / lifetime usable
	Why         string
	SurelyStale bool
	SurelyFresh bool          // fresh by more than one second
	Staleness   time.Duration // lower bound
}

func priorAgeAny(w *sim.World, upTo *sim.Exchange) bool {
	for _, e := range w.Exchanges {
		if e.ID > upTo.ID {
			break
		}
		for _, c := range e.Calls() {
			if c.Reply != nil && c.Reply.Header != nil && len(c.Reply.Header.Values("Age")) > 0 {
				return true
			}
		}
	}
	return false
}

// StripCacheFields removes the fields the cache adds on its own.
func StripCacheFields(h http.Header) http.Header {
	out := h.Clone()
	out.Del("X-Httpcache-Status")
	out.Del("X-From-Cache")
	out.Del("Age")
	return out
}

// Classify derives the shared facts.
func Classify(w *sim.World, ex *sim.Exchange) *Info {
	in := &Info{Ex: ex}
	for _, c := range ex.Calls() {
		if c.Background {
			in.BgCalls = append(in.BgCalls, c)
		} else {
			in.FgCalls = append(in.FgCalls, c)
			if c.Reply != nil {
				if c.Reply.Err != nil || c.Reply.Hang || c.CtxErr != "" && c.Reply.Delay > 0 {
					in.FgFailed = true
				} else if c.Reply.Status == 304 {
					in.Got304 = true
				} else if c.Reply.Status >= 500 {
					in.FgFailed = true
				}
			}
		}
	}
	in.ReqCC = oracle.ParseCC(http.Header(ex.Spec.Header).Values("Cache-Control"))
	if ex.Header == nil {
		return in
	}
	in.HasResp = true
	in.FromStore = ex.FromStore()
	if bs := ex.BodySerial(); bs != "" {
		in.Mb = w.Call(bs)
	}
	if x := ex.XMsg(); x != "" {
		in.Mh = w.Call(x)
	}
	if !in.FromStore {
		return in
	}
	if in.Mh == nil || in.Mh.Reply == nil {
		in.Why = "header message unknown"
		return in
	}
	eff := StripCacheFields(ex.Header)
	in.StCC = oracle.ParseCC(eff.Values("Cache-Control"))
	in.Stored = oracle.Stored{
		Status: ex.Status, Header: eff,
		ReqTime: in.Mh.Enter, RespTime: in.Mh.Exit,
		SentHeader: in.Mh.Reply.Header, Is304: in.Mh.Reply.Status == 304,
	}
	if in.Stored.Is304 {
		in.Stored.PriorAgeAny = priorAgeAny(w, ex)
	}
	if in.Got304 && in.Mh.Exch == ex.ID {
		// validated in this exchange: ages relate to the new message; staleness monitors skip it
	}
	_, _, dnote := oracle.DateBounds(in.Stored)
	in.Age = oracle.CurrentAge(in.Stored, ex.TCall)
	in.AgeRet = oracle.CurrentAge(in.Stored, ex.TReturn)
	in.Life = oracle.Lifetime(in.Stored)
	in.Known = !strings.Contains(dnote, "ambiguous")
	if !in.Known {
		in.Why = dnote
		return in
	}
	bothForever := in.Age.Low == oracle.Forever && in.Life.High == oracle.Forever
	in.SurelyStale = in.Age.Low >= in.Life.High && !bothForever
	in.SurelyFresh = in.Age.High != oracle.Forever && oracle.SatAdd(in.Age.High, time.Second) < in.Life.Low
	in.Staleness = oracle.SatSub(in.Age.Low, in.Life.High)
	return in
}

func (in *Info) desc() string {
	return fmt.Sprintf("age∈[%v,%v] (%s) lifetime∈[%v,%v] (%s); %s", in.Age.Low, in.Age.High, in.Age.Note, in.Life.Low, in.Life.High, in.Life.Note, in.Ex.Summary())
}

// ---- C01 -----------------------------------------------------------------

// C01 flags a surely-stale stored response served without origin contact and
// without one of the three permissions.
func C01(in *Info) (vs []V, antecedent bool, permission string) {
	if !in.FromStore || len(in.FgCalls) > 0 || !in.Known {
		return nil, false, ""
	}
	antecedent = true
	if !in.SurelyStale {
		return nil, true, "fresh"
	}
	// permissions
	if in.ReqCC.Has("only-if-cached") {
		return nil, true, "only-if-cached"
	}
	if ms := in.ReqCC.All("max-stale"); len(ms) > 0 {
		d := in.ReqCC.Delta("max-stale")
		if !d.Valid || in.Staleness <= oracle.SatAdd(d.Value, time.Second) {
			return nil, true, "max-stale"
		}
	}
	if swr := in.StCC.Delta("stale-while-revalidate"); swr.Present {
		if !swr.Valid {
			// unparsable / duplicated: no verdict
			return nil, true, "swr-unparsable"
		}
		if in.Staleness < oracle.SatAdd(swr.Value, time.Second) {
			return nil, true, "stale-while-revalidate"
		}
	}
	src := in.Life.Note
	if i := strings.IndexByte(src, '('); i > 0 {
		src = src[:i]
	}
	agecls := "resident"
	if strings.Contains(in.Age.Note, "age:origin") {
		agecls = "age-header"
	}
	vs = append(vs, V{"C01", "stale-served", "lifetime=" + src + ",agesrc=" + agecls + sigReq(in),
		"stale stored response served without origin contact and without permission: " + in.desc()})
	return vs, true, ""
}

func sigReq(in *Info) string {
	var parts []string
	for _, n := range []string{"max-age", "max-stale", "min-fresh", "no-cache", "only-if-cached"} {
		if in.ReqCC.Has(n) {
			parts = append(parts, n)
		}
	}
	if len(parts) == 0 {
		return ""
	}
	return ",req=" + strings.Join(parts, "+")
}

// ---- C02 -----------------------------------------------------------------

// storedValidators reads ETag and Last-Modified of the entry the cache looked
// up in this exchange from the bytes the store returned (ok=false if no entry
// was read or its header block cannot be found).
func storedValidators(ex *sim.Exchange) (etag, lastMod string, ok bool) {
	for _, op := range ex.StoreOps {
		if op.Op != "get" || !op.Fg || op.Err != "" || op.Fault != "" {
			continue
		}
		i := bytes.Index(op.Value, []byte("HTTP/"))
		j := bytes.Index(op.Value, []byte("\r\n\r\n"))
		if i < 0 || j < i {
			continue
		}
		etag, lastMod, ok = "", "", true
		for _, line := range strings.Split(string(op.Value[i:j]), "\r\n")[1:] {
			name, val, found := strings.Cut(line, ":")
			if !found {
				continue
			}
			switch strings.ToLower(strings.TrimSpace(name)) {
			case "etag":
				etag = strings.TrimSpace(val)
			case "last-modified":
				lastMod = strings.TrimSpace(val)
			}
		}
	}
	return
}

// C02Validated304: a stored response returned after a 304 was really
// validated only if the precondition the origin evaluated - If-None-Match, or
// If-Modified-Since in its absence - was copied from the stored response, not
// sent by the client on its own behalf.
func C02Validated304(in *Info) (vs []V) {
	ex := in.Ex
	if !in.FromStore || !in.Got304 || ex.Status == 304 {
		return nil
	}
	etag, lastMod, ok := storedValidators(ex)
	if !ok {
		return nil
	}
	for _, c := range in.FgCalls {
		if c.Reply == nil || c.Reply.Status != 304 {
			continue
		}
		inm, ims := c.Header.Get("If-None-Match"), c.Header.Get("If-Modified-Since")
		valid := inm != "" && etag != "" && inm == etag || inm == "" && ims != "" && lastMod != "" && ims == lastMod
		if !valid {
			vs = append(vs, V{"C02", "304-not-about-the-stored-response", fmt.Sprintf("stored-etag=%v,stored-lm=%v,sent-inm=%v", etag != "", lastMod != "", inm != ""),
				fmt.Sprintf("the stored response (ETag %q, Last-Modified %q) was returned as validated, but the 304 answered If-None-Match %q / If-Modified-Since %q, which were not copied from it; %s", etag, lastMod, inm, ims, ex.Summary())})
		}
	}
	return vs
}

// C02 flags reuse without validation where validation is required.
func C02(in *Info) (vs []V, antecedent bool) {
	ex := in.Ex
	vs = append(vs, C02Validated304(in)...)
	if in.FromStore && !in.Got304 {
		nc := in.StCC.NoCacheResp()
		sieWindow := false
		if in.FgFailed {
			sieWindow = true // C13 territory for request max-age; see below
		}
		if nc.Unqualified {
			antecedent = true
			vs = append(vs, V{"C02", "no-cache-resp", "stored-no-cache" + sigReq(in) + sigPath(in),
				"stored response with unqualified no-cache reused without a 304 in this exchange: " + in.desc()})
		}
		if in.StCC.Has("must-revalidate") && in.Known {
			antecedent = true
			if in.SurelyStale {
				vs = append(vs, V{"C02", "must-revalidate", "stale-must-revalidate" + sigReq(in) + sigPath(in),
					"stale must-revalidate response reused without a 304 in this exchange: " + in.desc()})
			}
		}
		if in.ReqCC.Has("no-cache") {
			antecedent = true
			vs = append(vs, V{"C02", "no-cache-req", "request-no-cache" + sigReq(in) + sigPath(in),
				"request no-cache answered from the store without a 304 in this exchange: " + in.desc()})
		}
		if d := in.ReqCC.Delta("max-age"); d.Present && d.Valid && in.Known && !sieWindow {
			antecedent = true
			limit := oracle.SatAdd(d.Value, time.Second)
			skip := false
			if in.ReqCC.Has("max-stale") {
				ms := in.ReqCC.Delta("max-stale")
				if !ms.Valid {
					skip = true
				} else {
					limit = oracle.SatAdd(limit, ms.Value)
				}
			}
			if !skip && in.Age.Low > limit {
				vs = append(vs, V{"C02", "max-age-req", "request-max-age-exceeded" + sigReq(in) + sigPath(in),
					fmt.Sprintf("request max-age=%v exceeded by a stored response reused without validation: %s", d.Value, in.desc())})
			}
		}
		for _, f := range nc.Fields {
			if f == "Age" || f == "X-Httpcache-Status" || f == "X-From-Cache" {
				continue // the cache's own fields are generated, not replayed
			}
			if len(ex.Header.Values(f)) > 0 {
				antecedent = true
				vs = append(vs, V{"C02", "no-cache-fields", "qualified-field-replayed" + sigPath(in),
					fmt.Sprintf("field %s named by no-cache=\"…\" replayed without validation: %s", f, in.desc())})
			}
		}
	}
	return vs, antecedent
}

func sigPath(in *Info) string {
	p := ",path="
	switch {
	case len(in.FgCalls) == 0 && len(in.BgCalls) > 0:
		p += "swr"
	case len(in.FgCalls) == 0:
		p += "nocontact"
	case in.FgFailed:
		p += "fg-failed"
	default:
		p += "fg-" + fmt.Sprint(in.FgCalls[len(in.FgCalls)-1].Reply.Status)
	}
	return p
}

// C02Request checks the validation requests of the exchange and the caller's
// request object.
func C02Request(w *sim.World, in *Info) (vs []V, nValidation int) {
	ex := in.Ex
	if d := ex.ReqBefore.Diff(ex.ReqAfter); d != "" {
		vs = append(vs, V{"C02", "request-mutated", "at-return", "the caller's request object changed during RoundTrip: " + d + "; " + ex.Summary()})
	} else if !ex.Spec.NoWait {
		if d := ex.ReqBefore.Diff(ex.ReqQuiesced); d != "" {
			vs = append(vs, V{"C02", "request-mutated", "at-quiescence", "the caller's request object changed after RoundTrip returned: " + d + "; " + ex.Summary()})
		}
	}
	cli := http.Header(ex.Spec.Header)
	for _, c := range ex.Calls() {
		// every upstream call of the exchange is for the client's URI, with the
		// client's header fields as they were when RoundTrip was called
		if cu, err := url.Parse(c.URL); err == nil {
			if oracle.CompareURI(cu, ReqURL(ex.Spec)) == oracle.Distinct {
				bg := "foreground"
				if c.Background {
					bg = "background"
				}
				vs = append(vs, V{"C02", "upstream-request", "url-differs," + bg, fmt.Sprintf("upstream call %s went to %q, the client asked for %q; %s", c.Serial, c.URL, ReqURL(ex.Spec), ex.Summary())})
			}
		}
		for _, hn := range []string{"If-None-Match", "If-Modified-Since"} {
			if vs2 := c.Header.Values(hn); len(vs2) > 1 && len(cli.Values(hn)) <= 1 {
				vs = append(vs, V{"C02", "validation-request", "validators-mixed," + hn, fmt.Sprintf("upstream call %s carries %d %s values %q (the client sent %q): a 304 can no longer be attributed to the stored response; %s", c.Serial, len(vs2), hn, vs2, cli.Values(hn), ex.Summary())})
			}
		}
		if c.Header.Get("X-Reused") != "" {
			vs = append(vs, V{"C02", "upstream-request", "sees-caller-reuse", fmt.Sprintf("upstream call %s carries header fields the caller set on its request object after RoundTrip had returned; %s", c.Serial, ex.Summary())})
		}
		addedINM := c.Header.Get("If-None-Match") != "" && cli.Get("If-None-Match") == ""
		addedIMS := c.Header.Get("If-Modified-Since") != "" && cli.Get("If-Modified-Since") == ""
		if !addedINM && !addedIMS {
			continue
		}
		nValidation++
		// other fields must be the client's
		// (a client that sends conditionals of its own is a debatable area:
		// the conditional fields are left out of the comparison)
		got := c.Header.Clone()
		got.Del("If-None-Match")
		got.Del("If-Modified-Since")
		want := http.Header{}
		for k, v := range cli {
			want[http.CanonicalHeaderKey(k)] = append(want[http.CanonicalHeaderKey(k)], v...)
		}
		want.Del("If-None-Match")
		want.Del("If-Modified-Since")
		if d := sim.HeaderDiff(want, got); d != "" {
			vs = append(vs, V{"C02", "validation-request", "other-fields-differ", "validation request is not the client's request plus validators: " + d + "; " + ex.Summary()})
		}
		if c.Method != ex.ReqBefore.Method {
			vs = append(vs, V{"C02", "validation-request", "method-differs", "validation request method differs; " + ex.Summary()})
		}
		// the validators must be values the origin sent earlier for this resource
		okE, okL := !addedINM, !addedIMS
		for _, e := range w.Exchanges {
			if e.ID > ex.ID {
				break
			}
			for _, pc := range e.Calls() {
				if pc == c || pc.Reply == nil || pc.Reply.Header == nil {
					continue
				}
				if e.ID == ex.ID && pc.Index >= c.Index {
					continue
				}
				if addedINM && pc.Reply.Header.Get("ETag") == c.Header.Get("If-None-Match") {
					okE = true
				}
				if addedIMS && pc.Reply.Header.Get("Last-Modified") == c.Header.Get("If-Modified-Since") {
					okL = true
				}
			}
		}
		if !okE {
			vs = append(vs, V{"C02", "validation-request", "if-none-match-not-stored-etag", fmt.Sprintf("If-None-Match %q is no ETag the origin ever sent; %s", c.Header.Get("If-None-Match"), ex.Summary())})
		}
		if !okL {
			vs = append(vs, V{"C02", "validation-request", "if-modified-since-not-stored-lm", fmt.Sprintf("If-Modified-Since %q is no Last-Modified the origin ever sent; %s", c.Header.Get("If-Modified-Since"), ex.Summary())})
		}
	}
	return vs, nValidation
}

// ---- C10 (basic clauses that apply to every exchange) ----------------------

func C10Basic(in *Info) (vs []V) {
	ex := in.Ex
	if ex.Panic != "" && !strings.HasPrefix(ex.Panic, "HARNESS") {
		fr := panicFrame(ex.Panic)
		vs = append(vs, V{"C10", "panic", "panic@" + fr, "RoundTrip panicked: " + firstLines(ex.Panic, 25) + "\n" + ex.Summary()})
	}
	if ex.NilNil {
		vs = append(vs, V{"C10", "nil-nil", "nil-nil", "RoundTrip returned neither a response nor an error; " + ex.Summary()})
	}
	if ex.Err != nil && ex.Panic == "" {
		originFailed := false
		for _, c := range ex.Calls() {
			if c.Reply != nil && (c.Reply.Err != nil || c.Reply.Hang || c.CtxErr != "") {
				originFailed = true
			}
		}
		if !originFailed && !ex.Spec.CancelBefore {
			vs = append(vs, V{"C10", "error-without-origin-failure", "err", "RoundTrip returned an error although no origin call failed: " + ex.Err.Error() + "; " + ex.Summary()})
		}
	}
	// Every upstream reply that was received is either handed to the caller
	// (who closed it) or released by the cache: under net/http an unclosed body
	// keeps its connection checked out, and with a connection limit the next
	// round trip hangs. Judged at quiescence only.
	if !ex.Spec.NoWait && !ex.Spec.KeepBody && ex.Panic == "" {
		for _, c := range ex.Calls() {
			done, ctxErr, reply := ex.Finished(c)
			if !done || reply == nil || reply.Err != nil || reply.Hang || ctxErr != "" {
				continue
			}
			if !c.BodyReleased() {
				where := "foreground"
				if c.Background {
					where = "background"
				}
				vs = append(vs, V{"C10", "upstream-body-not-released", fmt.Sprintf("%s,status=%dxx", where, reply.Status/100),
					fmt.Sprintf("the %s upstream reply %s (status %d) was neither handed to the caller nor closed: its connection stays checked out; %s", where, c.Serial, reply.Status, ex.Summary())})
			}
		}
	}
	return vs
}

func panicFrame(stack string) string {
	// first repository frame below the panic
	lines := strings.Split(stack, "\n")
	seenPanic := false
	for _, l := range lines {
		if strings.HasPrefix(l, "panic(") {
			seenPanic = true
			continue
		}
		if seenPanic && strings.HasPrefix(l, "github.com/bartventer/httpcache") {
			if i := strings.LastIndexByte(l, '('); i > 0 {
				l = l[:i]
			}
			return strings.TrimPrefix(l, "github.com/bartventer/httpcache")
		}
	}
	for _, l := range lines {
		if strings.HasPrefix(l, "github.com/bartventer/httpcache") {
			if i := strings.LastIndexByte(l, '('); i > 0 {
				l = l[:i]
			}
			return strings.TrimPrefix(l, "github.com/bartventer/httpcache")
		}
	}
	return "?"
}

func firstLines(s string, n int) string {
	lines := strings.Split(s, "\n")
	if len(lines) > n {
		lines = lines[:n]
	}
	return strings.Join(lines, "\n")
}

// ---- C11 -----------------------------------------------------------------

// C11 checks Age and the cache-status fields of a result.
func C11(in *Info) (vs []V, antecedent bool) {
	ex := in.Ex
	if !in.HasResp {
		return nil, false
	}
	antecedent = true
	st := ex.Header.Values("X-Httpcache-Status")
	legacy := ex.Header.Values("X-From-Cache")
	synth504 := !in.FromStore && len(in.FgCalls) == 0 && ex.Status == 504 && ex.BodySerial() == "" && ex.XMsg() == ""
	if len(st) != 1 {
		vs = append(vs, V{"C11", "status-count", fmt.Sprintf("n=%d", len(st)), fmt.Sprintf("result carries %d X-Httpcache-Status values %q; %s", len(st), st, ex.Summary())})
		return vs, true
	}
	s := st[0]
	var allowed []string
	path := ""
	switch {
	case in.FromStore && in.Got304 && in.Mh != nil && in.Mh.Exch == ex.ID:
		allowed, path = []string{"REVALIDATED"}, "revalidated"
	case in.FromStore && len(in.FgCalls) > 0:
		// served from the store after a failed (or ignored) validation
		allowed, path = []string{"STALE"}, "stale-after-contact"
	case in.FromStore && in.Known && in.SurelyFresh && len(in.BgCalls) == 0:
		allowed, path = []string{"HIT"}, "fresh-hit"
	case in.FromStore && in.Known && in.SurelyStale:
		allowed, path = []string{"HIT", "STALE"}, "stale-no-contact"
	case in.FromStore:
		allowed, path = []string{"HIT", "STALE"}, "store-no-contact"
	case synth504:
		allowed, path = []string{"MISS", "BYPASS"}, "synth-504"
	default:
		allowed, path = []string{"MISS", "BYPASS"}, "origin"
	}
	ok := false
	for _, a := range allowed {
		if s == a {
			ok = true
		}
	}
	if !ok {
		vs = append(vs, V{"C11", "status-value", path + "=" + s, fmt.Sprintf("X-Httpcache-Status is %q, what happened is %s (allowed %v); %s", s, path, allowed, ex.Summary())})
	}
	wantLegacy := in.FromStore
	gotLegacy := len(legacy) == 1 && legacy[0] == "1"
	if wantLegacy != gotLegacy || (!wantLegacy && len(legacy) > 0 && strings.Join(legacy, "") != "") {
		vs = append(vs, V{"C11", "x-from-cache", fmt.Sprintf("%s=%q", path, strings.Join(legacy, "|")), fmt.Sprintf("X-From-Cache is %q on a result whose path is %s; %s", legacy, path, ex.Summary())})
	}
	// Age
	if in.FromStore && !(in.Got304 && in.Mh != nil && in.Mh.Exch == ex.ID) {
		ages := ex.Header.Values("Age")
		if !in.Known {
			return vs, true
		}
		if len(ages) != 1 {
			vs = append(vs, V{"C11", "age-count", fmt.Sprintf("%s,n=%d", path, len(ages)), fmt.Sprintf("from-store result carries %d Age values %q; %s", len(ages), ages, in.desc())})
			return vs, true
		}
		a, valid := oracle.ParseDeltaSeconds(ages[0])
		if !valid {
			vs = append(vs, V{"C11", "age-syntax", path, fmt.Sprintf("Age %q is not delta-seconds; %s", ages[0], in.desc())})
			return vs, true
		}
		// the age at the moment the response is handed over (within one second)
		lo := oracle.SatSub(in.AgeRet.Low, time.Second)
		hi := oracle.SatAdd(in.AgeRet.High, time.Second)
		if in.AgeRet.High == oracle.Forever {
			hi = oracle.Forever
		}
		// a saturated age may be rendered as any value >= 2^31
		if in.AgeRet.Low >= (1<<31)*time.Second {
			lo = (1 << 31) * time.Second
		}
		if a < lo || a > hi {
			vs = append(vs, V{"C11", "age-value", path + sigAge(in), fmt.Sprintf("Age %q outside the admissible [%v, %v]; %s", ages[0], lo, hi, in.desc())})
		}
	}
	return vs, true
}

func sigAge(in *Info) string {
	if strings.Contains(in.Age.Note, "age:origin") {
		return ",origin-age"
	}
	return ""
}

// ---- C16 caller ownership (sequential form) --------------------------------

func C16Own(in *Info) (vs []V) {
	ex := in.Ex
	if ex.Header != nil && ex.HeaderQ != nil {
		if d := sim.HeaderDiff(ex.Header, ex.HeaderQ); d != "" {
			vs = append(vs, V{"C16", "header-changed-after-return", sigPath(in), "the returned header map changed after RoundTrip returned: " + d + "; " + ex.Summary()})
		}
	}
	return vs
}

// ---- C18 -----------------------------------------------------------------

func C18(in *Info) (vs []V, antecedent bool) {
	ex := in.Ex
	if !in.ReqCC.Has("only-if-cached") {
		return nil, false
	}
	// whatever the method: "no call to the origin under any circumstances"
	plain := SpecMethod(ex.Spec) == "GET" && http.Header(ex.Spec.Header).Get("Range") == ""
	antecedent = true
	if n := len(ex.Calls()); n > 0 {
		c := ex.Calls()[0]
		bg := ""
		if c.Background {
			bg = "background,"
		}
		if !plain {
			bg += "method-or-range,"
		}
		vs = append(vs, V{"C18", "origin-contacted", bg + storedShape(in), fmt.Sprintf("only-if-cached request caused %d origin call(s); %s", n, ex.Summary())})
		return vs, true
	}
	if !in.HasResp {
		if ex.Panic == "" {
			vs = append(vs, V{"C18", "no-response", "err", "only-if-cached request got no response: " + fmt.Sprint(ex.Err)})
		}
		return vs, true
	}
	if !in.FromStore {
		if ex.Status != 504 || ex.BodySerial() != "" {
			vs = append(vs, V{"C18", "neither-store-nor-504", fmt.Sprint(ex.Status), "only-if-cached result is neither from the store nor a synthesised 504; " + ex.Summary()})
		}
		return vs, true
	}
	// from store: must be usable without validation
	v2, _ := C02(in)
	for _, v := range v2 {
		vs = append(vs, V{"C18", "needs-validation", v.Clause + sigReq(in), "only-if-cached answered with a stored response that needs validation: " + v.Msg})
	}
	return vs, true
}

func storedShape(in *Info) string {
	if len(in.Ex.Calls()) == 0 {
		return ""
	}
	c := in.Ex.Calls()[0]
	if c.Conditional() {
		return "conditional"
	}
	return "unconditional"
}
