package sim

import (
	"bytes"
	"context"
	"errors"
	"fmt"
	"io"
	"net/http"
	"runtime"
	"sync"
	"time"
)

// Reply is what the scripted origin does with one upstream call.
type Reply struct {
	Status    int
	Header    http.Header   // rendered header fields (X-Msg is added by the origin)
	BodySize  int           // filler bytes of the token body
	BodyClass byte          // filler class, see MakeBody
	RawBody   []byte        // if non-nil, sent instead of a token body
	NoBody    bool          // send no body at all (304, 204, HEAD)
	Delay     time.Duration // virtual latency before the reply (or the error)
	Err       error         // transport error instead of a response
	FailBody  bool          // the body stream fails ...
	FailAt    int           // ... after this many bytes
	Hang      bool          // never answer; return ctx error once the context ends
	Proto     string        // "" = HTTP/1.1
	Chunked   bool          // unknown length: ContentLength -1, Transfer-Encoding chunked (as a real transport reports it)
	Note      string        // free text for samples
	NilHeader bool          // the response is handed over with a nil header map
}

var ErrOrigin = errors.New("sim: scripted origin transport error")
var ErrBody = errors.New("sim: scripted body read failure")

// UpCall is one call of the upstream RoundTripper as the origin saw it.
type UpCall struct {
	Exch        int
	Index       int
	Serial      string
	Method      string
	URL         string
	Host        string
	Header      http.Header
	Enter       time.Time
	Exit        time.Time
	Background  bool // entered on another goroutine than the one running Do
	Reply       *Reply
	CtxErr      string // context error seen at exit, if any
	HadDeadline bool
	Deadline    time.Time
	body        []byte // body bytes as sent (complete)
	bodyState   *bodyState
}

// bodyState records what became of the body of an upstream reply.
type bodyState struct {
	mu     sync.Mutex
	closed bool
	eof    bool
}

// BodyReleased reports whether the reply's body was closed or read to its
// end (or there was none): otherwise its connection stays checked out under
// net/http.
func (c *UpCall) BodyReleased() bool {
	if c.bodyState == nil {
		return true
	}
	c.bodyState.mu.Lock()
	defer c.bodyState.mu.Unlock()
	return c.bodyState.closed || c.bodyState.eof
}

type trackedBody struct {
	io.ReadCloser
	st *bodyState
}

func (t *trackedBody) Read(p []byte) (int, error) {
	n, err := t.ReadCloser.Read(p)
	if err == io.EOF {
		t.st.mu.Lock()
		t.st.eof = true
		t.st.mu.Unlock()
	}
	return n, err
}

func (t *trackedBody) Close() error {
	t.st.mu.Lock()
	t.st.closed = true
	t.st.mu.Unlock()
	return t.ReadCloser.Close()
}

// Body returns the complete body the origin generated for this call.
func (c *UpCall) Body() []byte { return c.body }

// Conditional reports whether the upstream request carried a validator.
func (c *UpCall) Conditional() bool {
	return c.Header.Get("If-None-Match") != "" || c.Header.Get("If-Modified-Since") != ""
}

// Handler scripts the origin. It runs on the calling goroutine, possibly a
// background one, and must not touch shared mutable state in Mode R.
type Handler func(c *UpCall, req *http.Request) *Reply

type exchKey struct{}

// Origin is the scripted upstream.
type Origin struct {
	Handler Handler
	Jitter  func()            // optional schedule perturbation (Mode R)
	Gate    func(what string) // Mode S: called when an upstream call arrives
	mu      sync.Mutex
	orphans []*UpCall // calls without an exchange in their context
	tags    map[string]*Exchange
}

// TagHeader is a request header field World.Run adds to every client request.
// An upstream call is attributed to its exchange through the request context
// when the cache hands the caller's context values on, and through this field
// (which any request derived from the client's carries) when it does not - a
// background request on a context of the cache's own, for instance. The field
// is removed from the recorded copy of the upstream header, so no monitor
// sees it.
const TagHeader = "X-Verif-Exch"

// Tag registers ex and returns the value of its TagHeader field.
func (o *Origin) Tag(ex *Exchange) string {
	o.mu.Lock()
	defer o.mu.Unlock()
	if o.tags == nil {
		o.tags = map[string]*Exchange{}
	}
	t := fmt.Sprintf("x%d", ex.ID)
	o.tags[t] = ex
	return t
}

// Goid returns the id of the calling goroutine (Mode S names its actors by it).
func Goid() uint64 { return goid() }

func goid() uint64 {
	var buf [64]byte
	n := runtime.Stack(buf[:], false)
	// "goroutine 123 ["
	var id uint64
	for _, c := range buf[len("goroutine "):n] {
		if c < '0' || c > '9' {
			break
		}
		id = id*10 + uint64(c-'0')
	}
	return id
}

type failingBody struct {
	r      *bytes.Reader
	remain int
	failed bool
}

func (f *failingBody) Read(p []byte) (int, error) {
	if f.remain <= 0 {
		f.failed = true
		return 0, ErrBody
	}
	if len(p) > f.remain {
		p = p[:f.remain]
	}
	n, err := f.r.Read(p)
	f.remain -= n
	if err == io.EOF {
		return n, io.EOF
	}
	return n, err
}
func (f *failingBody) Close() error { return nil }

// RoundTrip implements http.RoundTripper.
func (o *Origin) RoundTrip(req *http.Request) (*http.Response, error) {
	ex, _ := req.Context().Value(exchKey{}).(*Exchange)
	if t := req.Header.Get(TagHeader); ex == nil && t != "" {
		o.mu.Lock()
		ex = o.tags[t]
		o.mu.Unlock()
	}
	c := &UpCall{
		Method: req.Method,
		URL:    req.URL.String(),
		Host:   req.Host,
		Header: req.Header.Clone(),
		Enter:  time.Now(),
	}
	c.Header.Del(TagHeader)
	if dl, ok := req.Context().Deadline(); ok {
		c.HadDeadline, c.Deadline = true, dl
	}
	if ex != nil {
		ex.mu.Lock()
		c.Exch = ex.ID
		c.Index = len(ex.Up)
		c.Background = goid() != ex.goid
		ex.Up = append(ex.Up, c)
		ex.mu.Unlock()
	} else {
		o.mu.Lock()
		c.Exch = -1
		c.Index = len(o.orphans)
		o.orphans = append(o.orphans, c)
		o.mu.Unlock()
	}
	c.Serial = fmt.Sprintf("%d.%d", c.Exch, c.Index)
	if o.Jitter != nil {
		o.Jitter()
	}
	if o.Gate != nil {
		o.Gate("origin " + req.Method + " " + req.URL.Path)
	}
	rep := o.Handler(c, req)
	finish := func() {
		if ex != nil {
			ex.mu.Lock()
			defer ex.mu.Unlock()
		}
		c.Exit = time.Now()
		if err := req.Context().Err(); err != nil {
			c.CtxErr = err.Error()
		}
	}
	if ex != nil {
		ex.mu.Lock()
		c.Reply = rep
		ex.mu.Unlock()
	} else {
		c.Reply = rep
	}
	if rep.Hang {
		<-req.Context().Done()
		finish()
		return nil, req.Context().Err()
	}
	if rep.Delay > 0 {
		t := time.NewTimer(rep.Delay)
		select {
		case <-t.C:
		case <-req.Context().Done():
			t.Stop()
			finish()
			return nil, req.Context().Err()
		}
	}
	if o.Jitter != nil {
		o.Jitter()
	}
	if rep.Err != nil {
		finish()
		return nil, rep.Err
	}
	h := rep.Header.Clone()
	if h == nil {
		h = http.Header{}
	}
	h.Set("X-Msg", c.Serial)
	var body []byte
	switch {
	case rep.NoBody:
	case rep.RawBody != nil:
		body = rep.RawBody
	default:
		body = MakeBody(c.Serial, rep.BodySize, rep.BodyClass)
	}
	c.body = body
	proto := rep.Proto
	if proto == "" {
		proto = "HTTP/1.1"
	}
	maj, mnr := 1, 1
	if proto == "HTTP/1.0" {
		mnr = 0
	} else if proto == "HTTP/2.0" {
		maj, mnr = 2, 0
	}
	resp := &http.Response{
		Status:        fmt.Sprintf("%d %s", rep.Status, http.StatusText(rep.Status)),
		StatusCode:    rep.Status,
		Proto:         proto,
		ProtoMajor:    maj,
		ProtoMinor:    mnr,
		Header:        h,
		ContentLength: int64(len(body)),
		Request:       req,
	}
	if rep.Chunked && !rep.NoBody {
		resp.ContentLength = -1
		if mnr == 1 && maj == 1 {
			resp.TransferEncoding = []string{"chunked"}
		} else {
			resp.Close = true
		}
	}
	if rep.NoBody {
		resp.Body = http.NoBody
		resp.ContentLength = 0
		if rep.Status == 304 || rep.Status == 204 || rep.Status < 200 {
			resp.ContentLength = 0
		}
	} else if rep.FailBody {
		resp.Body = &failingBody{r: bytes.NewReader(body), remain: min(rep.FailAt, len(body))}
	} else {
		resp.Body = io.NopCloser(bytes.NewReader(body))
	}
	if resp.Body != http.NoBody {
		c.bodyState = &bodyState{}
		resp.Body = &trackedBody{ReadCloser: resp.Body, st: c.bodyState}
	}
	if rep.NilHeader {
		// a hand-written upstream that leaves the header map nil
		resp.Header = nil
	}
	finish()
	return resp, nil
}

// Orphans returns upstream calls that carried no exchange id.
func (o *Origin) Orphans() []*UpCall {
	o.mu.Lock()
	defer o.mu.Unlock()
	return append([]*UpCall(nil), o.orphans...)
}

// WithExchange plants the exchange in a context.
func WithExchange(ctx context.Context, ex *Exchange) context.Context {
	return context.WithValue(ctx, exchKey{}, ex)
}
