package sim

import (
	"errors"
	"fmt"
	"net/url"
	"sort"
	"strings"
	"sync"

	"github.com/bartventer/httpcache/store"
	"github.com/bartventer/httpcache/store/driver"
)

// StoreOp is one operation that reached the recording Conn.
type StoreOp struct {
	Seq      int
	Exch     int    // exchange that was current when the op arrived (-1 none)
	Op       string // "get" | "set" | "delete"
	Key      string
	Value    []byte // value written (set) or returned to the cache (get)
	Err      string // error returned to the cache, "" if none
	NotExist bool
	Fault    string // name of the injected fault, "" if none
	Fg       bool   // arrived on the goroutine that runs the current exchange's RoundTrip
}

// Fault is an injected store misbehaviour.
type Fault struct {
	Name      string
	Err       error  // return this error (the inner op is not executed unless After)
	After     bool   // execute the inner operation, then report Err
	Replace   []byte // Get only: return these bytes instead (Err nil)
	DoReplace bool
}

var ErrStore = errors.New("sim: injected store failure")

// FaultPlan decides, per operation index, whether to inject.
type FaultPlan func(seq int, op, key string) *Fault

// RecStore wraps a driver.Conn, records every operation and injects faults.
type RecStore struct {
	Inner  driver.Conn
	Plan   FaultPlan
	Silent bool                 // Mode R: no recording, no shared lock beyond the inner Conn's
	Jitter func()               // optional schedule perturbation
	Gate   func(op, key string) // Mode S: called before every operation

	mu   sync.Mutex
	ops  []StoreOp
	cur  int // current exchange id
	curG uint64
	foot map[string]int
}

func NewRecStore(inner driver.Conn) *RecStore {
	return &RecStore{Inner: inner, cur: -1, foot: map[string]int{}}
}

func (s *RecStore) SetCurrent(ex int) {
	if s.Silent {
		return
	}
	s.mu.Lock()
	s.cur = ex
	s.curG = goid()
	s.mu.Unlock()
}

func (s *RecStore) begin(op, key string) (int, *Fault) {
	if s.Gate != nil {
		s.Gate(op, key)
	}
	if s.Jitter != nil {
		s.Jitter()
	}
	if s.Silent {
		return -1, nil
	}
	s.mu.Lock()
	seq := len(s.ops)
	s.ops = append(s.ops, StoreOp{Seq: seq, Exch: s.cur, Op: op, Key: key, Fg: goid() == s.curG})
	plan := s.Plan
	s.mu.Unlock()
	if plan != nil {
		return seq, plan(seq, op, key)
	}
	return seq, nil
}

func (s *RecStore) end(seq int, val []byte, err error, f *Fault, mutate func()) {
	if s.Silent || seq < 0 {
		return
	}
	s.mu.Lock()
	o := &s.ops[seq]
	o.Value = append([]byte(nil), val...)
	if err != nil {
		o.Err = err.Error()
		o.NotExist = errors.Is(err, driver.ErrNotExist)
	}
	if f != nil {
		o.Fault = f.Name
	}
	if mutate != nil {
		mutate()
	}
	s.mu.Unlock()
}

func (s *RecStore) Get(key string) ([]byte, error) {
	seq, f := s.begin("get", key)
	if f != nil {
		if f.DoReplace {
			s.end(seq, f.Replace, nil, f, nil)
			return append([]byte(nil), f.Replace...), nil
		}
		if f.Err != nil && !f.After {
			s.end(seq, nil, f.Err, f, nil)
			return nil, f.Err
		}
	}
	v, err := s.Inner.Get(key)
	if f != nil && f.Err != nil {
		v, err = nil, f.Err
	}
	s.end(seq, v, err, f, nil)
	return v, err
}

func (s *RecStore) Set(key string, value []byte) error {
	seq, f := s.begin("set", key)
	if f != nil && f.Err != nil && !f.After {
		s.end(seq, value, f.Err, f, nil)
		return f.Err
	}
	err := s.Inner.Set(key, value)
	n := len(value)
	if f != nil && f.Err != nil {
		err = f.Err
	}
	s.end(seq, value, err, f, func() {
		if err == nil || (f != nil && f.After) {
			s.foot[key] = n
		}
	})
	return err
}

func (s *RecStore) Delete(key string) error {
	seq, f := s.begin("delete", key)
	if f != nil && f.Err != nil && !f.After {
		s.end(seq, nil, f.Err, f, nil)
		return f.Err
	}
	err := s.Inner.Delete(key)
	if f != nil && f.Err != nil {
		err = f.Err
	}
	s.end(seq, nil, err, f, func() {
		if err == nil || (f != nil && f.After) {
			delete(s.foot, key)
		}
	})
	return err
}

// Ops returns a copy of the operation log from index from on.
func (s *RecStore) Ops(from int) []StoreOp {
	s.mu.Lock()
	defer s.mu.Unlock()
	if from > len(s.ops) {
		from = len(s.ops)
	}
	return append([]StoreOp(nil), s.ops[from:]...)
}

func (s *RecStore) NumOps() int {
	s.mu.Lock()
	defer s.mu.Unlock()
	return len(s.ops)
}

// Footprint returns key -> size of everything the store currently holds
// (as far as successful Set/Delete operations tell).
func (s *RecStore) Footprint() map[string]int {
	s.mu.Lock()
	defer s.mu.Unlock()
	out := make(map[string]int, len(s.foot))
	for k, v := range s.foot {
		out[k] = v
	}
	return out
}

func (s *RecStore) FootprintKeys() []string {
	fp := s.Footprint()
	keys := make([]string, 0, len(fp))
	for k := range fp {
		keys = append(keys, k)
	}
	sort.Strings(keys)
	return keys
}

// ---- "verif" store scheme -------------------------------------------------

var (
	regMu   sync.Mutex
	regConn = map[string]driver.Conn{}
	regSeq  int
)

func init() {
	store.Register("verif", driver.DriverFunc(func(u *url.URL) (driver.Conn, error) {
		regMu.Lock()
		defer regMu.Unlock()
		id := strings.TrimPrefix(u.Host+u.Path, "/")
		c, ok := regConn[id]
		if !ok {
			return nil, fmt.Errorf("verif store: unknown id %q", id)
		}
		return c, nil
	}))
}

// RegisterConn makes conn reachable as the returned DSN.
func RegisterConn(conn driver.Conn) (dsn string, release func()) {
	regMu.Lock()
	defer regMu.Unlock()
	regSeq++
	id := fmt.Sprintf("c%d", regSeq)
	regConn[id] = conn
	return "verif://" + id, func() {
		regMu.Lock()
		delete(regConn, id)
		regMu.Unlock()
	}
}

// MapConn is a plain in-harness map store with snapshot / restore, used where
// a workload wants to undo what a lookup wrote.
type MapConn struct {
	mu sync.RWMutex
	m  map[string][]byte
}

func NewMapConn() *MapConn { return &MapConn{m: map[string][]byte{}} }

func (c *MapConn) Get(key string) ([]byte, error) {
	c.mu.RLock()
	defer c.mu.RUnlock()
	v, ok := c.m[key]
	if !ok {
		return nil, driver.ErrNotExist
	}
	return append([]byte(nil), v...), nil
}

func (c *MapConn) Set(key string, value []byte) error {
	c.mu.Lock()
	defer c.mu.Unlock()
	c.m[key] = append([]byte(nil), value...)
	return nil
}

func (c *MapConn) Delete(key string) error {
	c.mu.Lock()
	defer c.mu.Unlock()
	if _, ok := c.m[key]; !ok {
		return driver.ErrNotExist
	}
	delete(c.m, key)
	return nil
}

func (c *MapConn) Snapshot() map[string][]byte {
	c.mu.RLock()
	defer c.mu.RUnlock()
	out := make(map[string][]byte, len(c.m))
	for k, v := range c.m {
		out[k] = v
	}
	return out
}

func (c *MapConn) Restore(s map[string][]byte) {
	c.mu.Lock()
	defer c.mu.Unlock()
	c.m = make(map[string][]byte, len(s))
	for k, v := range s {
		c.m[k] = v
	}
}

func (c *MapConn) Keys() []string {
	c.mu.RLock()
	defer c.mu.RUnlock()
	out := make([]string, 0, len(c.m))
	for k := range c.m {
		out = append(out, k)
	}
	sort.Strings(out)
	return out
}
