// Package sim is the observation boundary of the harness: a scripted origin
// (http.RoundTripper given to httpcache.WithUpstream), a recording / faulting
// driver.Conn registered under the "verif" store scheme, unique identities for
// every origin message and the exchange log the monitors read.
package sim

import (
	"bytes"
	"crypto/sha256"
	"encoding/hex"
	"fmt"
	"strconv"
	"strings"
)

// MakeBody returns a self-describing body for origin message serial:
//
//	TOK:<serial>:<filler length>:<sha256(filler)[:4] hex>|<filler>
//
// A body seen by the client therefore names the message it came from and
// proves (length + hash) that it is intact.
func MakeBody(serial string, size int, class byte) []byte {
	fill := filler(serial, size, class)
	sum := sha256.Sum256(fill)
	h := fmt.Sprintf("TOK:%s:%d:%s|", serial, len(fill), hex.EncodeToString(sum[:4]))
	return append([]byte(h), fill...)
}

func filler(serial string, n int, class byte) []byte {
	if n <= 0 {
		return nil
	}
	out := make([]byte, n)
	seed := sha256.Sum256([]byte("fill:" + serial))
	x := uint64(seed[0]) | uint64(seed[1])<<8 | uint64(seed[2])<<16 | uint64(seed[3])<<24 | uint64(seed[4])<<32 | 1
	next := func() uint64 {
		x ^= x << 13
		x ^= x >> 7
		x ^= x << 17
		return x
	}
	switch class {
	case 'r': // random bytes
		for i := range out {
			out[i] = byte(next())
		}
	case 'c': // CR/LF dense
		for i := range out {
			switch next() % 4 {
			case 0:
				out[i] = '\r'
			case 1:
				out[i] = '\n'
			case 2:
				out[i] = 0
			default:
				out[i] = byte('a' + next()%26)
			}
		}
	case 'h': // looks like HTTP framing / the entry's own metadata line
		pat := []byte("HTTP/1.1 200 OK\r\nContent-Length: 5\r\n\r\n0\r\n\r\nid\t2000-01-01T00:00:00Z\t2000-01-01T00:00:00Z\n5\r\nabcde\r\n")
		off := int(next() % uint64(len(pat)))
		for i := range out {
			out[i] = pat[(i+off)%len(pat)]
		}
	default: // text
		for i := range out {
			out[i] = byte('a' + next()%26)
		}
	}
	return out
}

// BodyInfo is what a monitor learns from a body.
type BodyInfo struct {
	Serial string // message serial named by the body ("" if none)
	HasTok bool   // body starts with a token header
	Intact bool   // length and hash agree with the header
}

// ParseBody classifies body bytes.
func ParseBody(b []byte) BodyInfo {
	if !bytes.HasPrefix(b, []byte("TOK:")) {
		return BodyInfo{}
	}
	bar := bytes.IndexByte(b, '|')
	if bar < 0 || bar > 200 {
		return BodyInfo{HasTok: true}
	}
	parts := strings.Split(string(b[4:bar]), ":")
	if len(parts) != 3 {
		return BodyInfo{HasTok: true}
	}
	info := BodyInfo{Serial: parts[0], HasTok: true}
	fillLen, err := strconv.Atoi(parts[1])
	if err != nil || fillLen != len(b)-bar-1 {
		return info
	}
	sum := sha256.Sum256(b[bar+1:])
	if hex.EncodeToString(sum[:4]) != parts[2] {
		return info
	}
	info.Intact = true
	return info
}

// FindSerials scans arbitrary bytes (a store value) for body tokens and
// X-Msg header values and returns the serials found.
func FindSerials(b []byte) []string {
	var out []string
	seen := map[string]bool{}
	add := func(s string) {
		if s != "" && !seen[s] {
			seen[s] = true
			out = append(out, s)
		}
	}
	for rest := b; ; {
		i := bytes.Index(rest, []byte("TOK:"))
		if i < 0 {
			break
		}
		rest = rest[i+4:]
		j := bytes.IndexByte(rest, ':')
		if j > 0 && j < 40 {
			add(string(rest[:j]))
		}
	}
	for rest := b; ; {
		i := bytes.Index(rest, []byte("X-Msg: "))
		if i < 0 {
			break
		}
		rest = rest[i+7:]
		j := bytes.IndexAny(rest, "\r\n")
		if j > 0 && j < 40 {
			add(string(rest[:j]))
		}
	}
	for rest := b; ; {
		i := bytes.Index(rest, []byte("X-U"))
		if i < 0 {
			break
		}
		rest = rest[i+3:]
		j := 0
		for j < len(rest) && j < 40 && (rest[j] == '.' || rest[j] == '-' || (rest[j] >= '0' && rest[j] <= '9')) {
			j++
		}
		if j > 0 {
			add(strings.ReplaceAll(string(rest[:j]), "-", "."))
		}
	}
	return out
}
