package sim

import (
	"bytes"
	"context"
	"fmt"
	"io"
	"log/slog"
	"net/http"
	"net/url"
	"reflect"
	"runtime/debug"
	"sort"
	"strings"
	"sync"
	"testing/synctest"
	"time"

	"github.com/bartventer/httpcache"
	"github.com/bartventer/httpcache/store/driver"
	"github.com/bartventer/httpcache/store/memcache"
)

// ReqSpec describes one client request.
type ReqSpec struct {
	Method string              `json:"method,omitempty"`
	URL    string              `json:"url,omitempty"`
	URLObj *url.URL            `json:"-"`
	Header map[string][]string `json:"header,omitempty"`
	Host   string              `json:"host,omitempty"`

	CancelBefore bool                `json:"cancel_before,omitempty"` // context already cancelled
	CancelAfter  bool                `json:"cancel_after,omitempty"`  // cancel right after RoundTrip returned
	Deadline     time.Duration       `json:"deadline,omitempty"`      // >0: context deadline from now
	NoWait       bool                `json:"no_wait,omitempty"`       // do not wait for quiescence
	Reuse        bool                `json:"reuse,omitempty"`         // caller reuses (mutates) its request object once the body is closed
	ReuseHeader  map[string][]string `json:"reuse_header,omitempty"`  // header fields the caller sets on its request object once the body is closed
	KeepBody     bool                `json:"-"`                       // leave the body unread (Mode R callers)
	LateBody     bool                `json:"late_body,omitempty"`     // read the body only after background work triggered by the request has quiesced
}

// ReqSnap is a deep snapshot of the caller's request object.
type ReqSnap struct {
	Method string
	URL    string
	URLPtr string
	Host   string
	Header map[string][]string
	CtxPtr string
	Body   string
}

func snapReq(r *http.Request) ReqSnap {
	s := ReqSnap{Method: r.Method, Host: r.Host, Header: map[string][]string{}}
	if r.URL != nil {
		s.URL = fmt.Sprintf("%#v", *r.URL)
		s.URLPtr = fmt.Sprintf("%p", r.URL)
	}
	for k, v := range r.Header {
		s.Header[k] = append([]string(nil), v...)
	}
	s.CtxPtr = fmt.Sprintf("%p", r.Context())
	s.Body = fmt.Sprintf("%p/%v", r.Body, r.GetBody == nil)
	return s
}

// Diff returns a description of the difference, "" if equal.
func (a ReqSnap) Diff(b ReqSnap) string {
	if reflect.DeepEqual(a, b) {
		return ""
	}
	var d []string
	if a.Method != b.Method {
		d = append(d, "method")
	}
	if a.URL != b.URL || a.URLPtr != b.URLPtr {
		d = append(d, "url")
	}
	if a.Host != b.Host {
		d = append(d, "host")
	}
	if !reflect.DeepEqual(a.Header, b.Header) {
		d = append(d, fmt.Sprintf("header %v -> %v", a.Header, b.Header))
	}
	if a.CtxPtr != b.CtxPtr {
		d = append(d, "ctx")
	}
	if a.Body != b.Body {
		d = append(d, "body")
	}
	return strings.Join(d, ",")
}

// Exchange is one RoundTrip call plus the background work it causes.
type Exchange struct {
	ID   int
	Spec ReqSpec

	mu   sync.Mutex
	goid uint64
	Up   []*UpCall

	ReqBefore, ReqAfter, ReqQuiesced ReqSnap

	TCall, TReturn time.Time

	Status  int
	Proto   string
	Header  http.Header // snapshot at return
	HeaderQ http.Header // snapshot after quiescence (nil if NoWait)
	Body    []byte
	BodyErr string
	Err     error
	Panic   string
	NilNil  bool
	Resp    *http.Response // the live object (for Mode R callers)
	Trailer http.Header

	StoreOps []StoreOp // operations between call and quiescence
	OpsFrom  int
}

// Calls returns a copy of the upstream calls attributed to the exchange.
func (e *Exchange) Calls() []*UpCall {
	e.mu.Lock()
	defer e.mu.Unlock()
	return append([]*UpCall(nil), e.Up...)
}

// Finished reports, under the exchange's lock, whether call c has returned
// and with which context error (a background call may still be in flight while
// a monitor looks at the exchange).
func (e *Exchange) Finished(c *UpCall) (done bool, ctxErr string, reply *Reply) {
	e.mu.Lock()
	defer e.mu.Unlock()
	return !c.Exit.IsZero(), c.CtxErr, c.Reply
}

// Foreground calls only.
func (e *Exchange) FgCalls() []*UpCall {
	var out []*UpCall
	for _, c := range e.Calls() {
		if !c.Background {
			out = append(out, c)
		}
	}
	return out
}

func (e *Exchange) BgCalls() []*UpCall {
	var out []*UpCall
	for _, c := range e.Calls() {
		if c.Background {
			out = append(out, c)
		}
	}
	return out
}

// XMsg is the serial of the message whose header block the result carries.
func (e *Exchange) XMsg() string {
	if e.Header == nil {
		return ""
	}
	return e.Header.Get("X-Msg")
}

// BodySerial is the serial of the message the body came from ("" unknown).
func (e *Exchange) BodySerial() string {
	bi := ParseBody(e.Body)
	if bi.HasTok {
		return bi.Serial
	}
	return ""
}

// OwnSerial reports whether serial belongs to an upstream call of this exchange.
func (e *Exchange) OwnSerial(serial string) bool {
	return strings.HasPrefix(serial, fmt.Sprintf("%d.", e.ID))
}

// FromStore: the result was built from a message sent in an earlier exchange.
func (e *Exchange) FromStore() bool {
	if e.Header == nil {
		return false
	}
	if bs := e.BodySerial(); bs != "" {
		return !e.OwnSerial(bs)
	}
	// bodiless results are attributed by their header block only when the
	// header block is foreign and no own upstream call answered with it.
	if x := e.XMsg(); x != "" {
		if !e.OwnSerial(x) {
			return true
		}
		// own header block: a 304 merged into a stored bodiless response
		for _, c := range e.Calls() {
			if c.Serial == x && c.Reply != nil && c.Reply.Status == 304 && e.Status != 304 {
				return true
			}
		}
	}
	return false
}

// Validated304 reports whether a foreground upstream call of this exchange
// was answered 304.
func (e *Exchange) Validated304() bool {
	for _, c := range e.FgCalls() {
		if c.Reply != nil && c.Reply.Err == nil && !c.Reply.Hang && c.Reply.Status == 304 {
			return true
		}
	}
	return false
}

func (e *Exchange) CacheStatus() string {
	if e.Header == nil {
		return ""
	}
	return strings.Join(e.Header.Values("X-Httpcache-Status"), "|")
}

// Summary is a short human readable line.
func (e *Exchange) Summary() string {
	var up []string
	for _, c := range e.Calls() {
		s := c.Serial
		if c.Background {
			s += "(bg)"
		}
		if c.Reply != nil {
			if c.Reply.Err != nil {
				s += ":err"
			} else if c.Reply.Hang {
				s += ":hang"
			} else {
				s += fmt.Sprintf(":%d", c.Reply.Status)
			}
		}
		if c.Conditional() {
			s += "c"
		}
		up = append(up, s)
	}
	res := fmt.Sprintf("%d", e.Status)
	if e.Err != nil {
		res = "err:" + e.Err.Error()
	}
	if e.Panic != "" {
		res = "panic:" + firstLine(e.Panic)
	}
	return fmt.Sprintf("#%d t=%s %s %s %v -> %s [%s] x-msg=%s body=%s age=%q up=%v",
		e.ID, e.TCall.UTC().Format("15:04:05.000"), e.Spec.Method, e.Spec.URL, e.Spec.Header, res,
		e.CacheStatus(), e.XMsg(), e.BodySerial(), hv(e.Header, "Age"), up)
}

func hv(h http.Header, k string) string {
	if h == nil {
		return ""
	}
	return strings.Join(h.Values(k), "|")
}

func firstLine(s string) string {
	if i := strings.IndexByte(s, '\n'); i >= 0 {
		return s[:i]
	}
	return s
}

// World wires a transport to a scripted origin and a recording store.
type World struct {
	Origin    *Origin
	Store     *RecStore
	RT        http.RoundTripper
	DSN       string
	Exchanges []*Exchange
	nextID    int
	release   func()
	opts      []httpcache.Option
	InBubble  bool
}

// WorldOpt configures NewWorld.
type WorldOpt struct {
	Inner       driver.Conn // default: fresh memcache
	Handler     Handler
	SWRTimeout  *time.Duration
	SWRTimeouts []time.Duration // WithSWRTimeout applied several times, in this order
	Logger      *slog.Logger
	Silent      bool
	NoBubble    bool
}

func NewWorld(o WorldOpt) *World {
	inner := o.Inner
	if inner == nil {
		inner = memcache.Open()
	}
	w := &World{Origin: &Origin{Handler: o.Handler}, Store: NewRecStore(inner), InBubble: !o.NoBubble}
	w.Store.Silent = o.Silent
	w.DSN, w.release = RegisterConn(w.Store)
	w.opts = []httpcache.Option{httpcache.WithUpstream(w.Origin)}
	if o.SWRTimeout != nil {
		w.opts = append(w.opts, httpcache.WithSWRTimeout(*o.SWRTimeout))
	}
	for _, d := range o.SWRTimeouts {
		w.opts = append(w.opts, httpcache.WithSWRTimeout(d))
	}
	if o.Logger != nil {
		w.opts = append(w.opts, httpcache.WithLogger(o.Logger))
	}
	w.RT = httpcache.NewTransport(w.DSN, w.opts...)
	return w
}

// Reopen builds a new transport on the same store (optionally a new inner Conn).
func (w *World) Reopen(inner driver.Conn) {
	if inner != nil {
		w.Store.Inner = inner
	}
	w.RT = httpcache.NewTransport(w.DSN, w.opts...)
}

func (w *World) Close() {
	if w.release != nil {
		w.release()
	}
}

// BuildRequest creates the *http.Request for a spec (without context).
func BuildRequest(spec ReqSpec) (*http.Request, error) {
	method := spec.Method
	emptyMethod := method == "<empty>" // a request built as a struct literal: "" means GET for clients
	if method == "" || emptyMethod {
		method = "GET"
	}
	var req *http.Request
	var err error
	if spec.URLObj != nil {
		req, err = http.NewRequest(method, "http://placeholder.invalid/", nil)
		if err != nil {
			return nil, err
		}
		u := *spec.URLObj
		req.URL = &u
		req.Host = u.Host
	} else {
		req, err = http.NewRequest(method, spec.URL, nil)
		if err != nil {
			return nil, err
		}
	}
	if emptyMethod {
		req.Method = ""
	}
	if spec.Host != "" {
		req.Host = spec.Host
	}
	for k, vs := range spec.Header {
		for _, v := range vs {
			req.Header.Add(k, v) // canonical field names, as net/http's own API produces
		}
	}
	return req, nil
}

// NewExchange allocates an exchange (ids are sequential per world unless id>=0).
func (w *World) NewExchange(spec ReqSpec, id int) *Exchange {
	if id < 0 {
		id = w.nextID
		w.nextID++
	}
	return &Exchange{ID: id, Spec: spec}
}

// Do performs one exchange and records everything about it.
func (w *World) Do(spec ReqSpec) *Exchange {
	ex := w.NewExchange(spec, -1)
	w.Exchanges = append(w.Exchanges, ex)
	w.Run(ex)
	return ex
}

// Run executes ex on the calling goroutine.
func (w *World) Run(ex *Exchange) {
	spec := ex.Spec
	req, err := BuildRequest(spec)
	if err != nil {
		ex.Err = fmt.Errorf("harness: cannot build request: %w", err)
		ex.Panic = "HARNESS: " + err.Error()
		return
	}
	if req.Header != nil {
		req.Header.Set(TagHeader, w.Origin.Tag(ex))
	}
	ctx := WithExchange(context.Background(), ex)
	var cancel context.CancelFunc = func() {}
	if spec.Deadline > 0 {
		ctx, cancel = context.WithTimeout(ctx, spec.Deadline)
	} else if spec.CancelBefore || spec.CancelAfter {
		ctx, cancel = context.WithCancel(ctx)
	}
	if spec.CancelBefore {
		cancel()
	}
	req = req.WithContext(ctx)
	ex.goid = goid()
	ex.ReqBefore = snapReq(req)
	ex.OpsFrom = w.Store.NumOps()
	w.Store.SetCurrent(ex.ID)
	ex.TCall = time.Now()
	var resp *http.Response
	func() {
		defer func() {
			if r := recover(); r != nil {
				ex.Panic = fmt.Sprintf("%v\n%s", r, debug.Stack())
			}
		}()
		resp, err = w.RT.RoundTrip(req)
	}()
	ex.TReturn = time.Now()
	ex.ReqAfter = snapReq(req)
	ex.Err = err
	if ex.Panic == "" && resp == nil && err == nil {
		ex.NilNil = true
	}
	if resp != nil {
		ex.Resp = resp
		ex.Status = resp.StatusCode
		ex.Proto = resp.Proto
		ex.Header = resp.Header.Clone()
		if spec.LateBody && !spec.NoWait && w.InBubble {
			synctest.Wait() // whatever the cache still does with this response happens first
		}
		if !spec.KeepBody && resp.Body != nil {
			var b []byte
			var rerr error
			if ex.ID%2 == 1 {
				// every other caller copies the body the way io.Copy does (which
				// prefers the body's own WriteTo, if it has one)
				var buf bytes.Buffer
				_, rerr = io.Copy(&buf, resp.Body)
				b = buf.Bytes()
			} else {
				b, rerr = io.ReadAll(resp.Body)
			}
			ex.Body = b
			if rerr != nil {
				ex.BodyErr = rerr.Error()
			}
			resp.Body.Close()
			ex.Trailer = resp.Trailer.Clone()
		}
	}
	if spec.CancelAfter {
		cancel()
	}
	for k, v := range spec.ReuseHeader {
		// the caller re-targets its own request object (allowed once the body is closed)
		req.Header[k] = append([]string(nil), v...)
	}
	if spec.Reuse && req.URL != nil {
		// the body has been read and closed: the caller owns the request again
		req.URL.Path = "/reused-by-caller"
		req.URL.RawPath = ""
		req.URL.RawQuery = "reused=1"
		req.Header.Set("X-Reused", "1")
		req.Header.Del("X-A")
	}
	if !spec.NoWait {
		if w.InBubble {
			synctest.Wait()
		}
		if resp != nil {
			ex.HeaderQ = resp.Header.Clone()
		}
		ex.ReqQuiesced = snapReq(req)
		if spec.Reuse || len(spec.ReuseHeader) > 0 {
			ex.ReqQuiesced = ex.ReqAfter
		}
		ex.StoreOps = w.Store.Ops(ex.OpsFrom)
	}
	if spec.Deadline > 0 && !spec.CancelAfter {
		// keep the deadline context alive; cancelling here would cancel background work
		_ = cancel
	}
}

// Settle lets virtual time pass and waits for quiescence, then refreshes the
// store-operation log of ex (background work).
func (w *World) Settle(ex *Exchange, d time.Duration) {
	if d > 0 {
		time.Sleep(d)
	}
	synctest.Wait()
	if ex != nil {
		ex.StoreOps = w.Store.Ops(ex.OpsFrom)
		if ex.Resp != nil {
			ex.HeaderQ = ex.Resp.Header.Clone()
		}
	}
}

// HeaderDiff compares two header snapshots.
func HeaderDiff(a, b http.Header) string {
	if reflect.DeepEqual(map[string][]string(a), map[string][]string(b)) {
		return ""
	}
	keys := map[string]bool{}
	for k := range a {
		keys[k] = true
	}
	for k := range b {
		keys[k] = true
	}
	var ks []string
	for k := range keys {
		ks = append(ks, k)
	}
	sort.Strings(ks)
	var d []string
	for _, k := range ks {
		if !reflect.DeepEqual(a[k], b[k]) {
			d = append(d, fmt.Sprintf("%s: %q -> %q", k, a[k], b[k]))
		}
	}
	return strings.Join(d, "; ")
}

// Call finds the upstream call with the given serial ("<exchange>.<index>").
func (w *World) Call(serial string) *UpCall {
	var e, i int
	if _, err := fmt.Sscanf(serial, "%d.%d", &e, &i); err != nil {
		return nil
	}
	for _, ex := range w.Exchanges {
		if ex.ID == e {
			cs := ex.Calls()
			if i >= 0 && i < len(cs) {
				return cs[i]
			}
			return nil
		}
	}
	return nil
}

// Exchange by id.
func (w *World) Exchange(id int) *Exchange {
	for _, ex := range w.Exchanges {
		if ex.ID == id {
			return ex
		}
	}
	return nil
}
