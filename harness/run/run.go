// Package run is the child-side protocol between a workload (a Go test
// function) and the orchestrator: case selection by batch, PRNG tree, the
// case journal written before each case, counters, distinct non-trivial case
// hashes, samples, violations and the result file.
package run

import (
	"crypto/sha256"
	"encoding/binary"
	"encoding/json"
	"fmt"
	"math/rand/v2"
	"os"
	"runtime/debug"
	"sort"
	"strconv"
	"strings"
	"sync"
	"testing"
	"testing/synctest"
	"time"
)

// Violation is one observed refutation.
type Violation struct {
	Property  string `json:"property"`
	Clause    string `json:"clause"`    // which part of the statement
	Signature string `json:"signature"` // structural signature for known_findings matching
	Message   string `json:"message"`   // the monitor's sentence
	Part      string `json:"part"`
	Idx       int    `json:"idx"`
	Case      any    `json:"case"`
	Observed  any    `json:"observed"`
}

// Result is what a child writes at the end.
type Result struct {
	Property     string              `json:"property"`
	Part         string              `json:"part"`
	Tier         string              `json:"tier"`
	Seed         int64               `json:"seed"`
	Batch        int                 `json:"batch"`
	NBatch       int                 `json:"nbatch"`
	Complete     bool                `json:"complete"`
	Evaluations  int64               `json:"evaluations"`
	Nontrivial   []uint64            `json:"nontrivial"`
	Counters     map[string]int64    `json:"counters"`
	Sets         map[string][]string `json:"sets"`
	Samples      []any               `json:"samples"`
	Violations   []Violation         `json:"violations"`
	Inconclusive []string            `json:"inconclusive"`
	Cross        map[string]int64    `json:"cross_observations"`
	Exhaustive   bool                `json:"exhaustive"`
	WallS        float64             `json:"wall_s"`
}

// Runner is the per-test handle.
type Runner struct {
	T         *testing.T
	Prop      string
	Part      string
	Tier      string
	Seed      int64
	Batch     int
	NBatch    int
	ReplayIdx int // -1 unless replaying
	Verbose   bool

	mu         sync.Mutex
	res        Result
	nt         map[uint64]struct{}
	sets       map[string]map[string]struct{}
	journal    *os.File
	outPath    string
	start      time.Time
	maxSamples int
	sigSeen    map[string]int
	CurIdx     int
	completed  bool
	CurCase    any
}

func envInt(name string, def int) int {
	if v := os.Getenv(name); v != "" {
		if n, err := strconv.Atoi(v); err == nil {
			return n
		}
	}
	return def
}

// Start reads the environment. When VERIF_PROP is set and differs from prop
// the test is skipped (one binary serves several properties).
func Start(t *testing.T, prop, part string) *Runner {
	if p := os.Getenv("VERIF_PROP"); p != "" && p != prop {
		t.Skip("other property")
	}
	if p := os.Getenv("VERIF_PART"); p != "" && p != part {
		t.Skip("other part")
	}
	r := &Runner{
		T: t, Prop: prop, Part: part,
		Tier:       os.Getenv("VERIF_TIER"),
		Seed:       int64(envInt("VERIF_SEED", 1)),
		Batch:      envInt("VERIF_BATCH", 0),
		NBatch:     envInt("VERIF_NBATCH", 1),
		ReplayIdx:  envInt("VERIF_REPLAY_IDX", -1),
		Verbose:    os.Getenv("VERIF_VERBOSE") != "",
		nt:         map[uint64]struct{}{},
		sets:       map[string]map[string]struct{}{},
		sigSeen:    map[string]int{},
		start:      time.Now(),
		maxSamples: 4,
		outPath:    os.Getenv("VERIF_OUT"),
	}
	if r.Tier == "" {
		r.Tier = "quick"
	}
	r.res = Result{Property: prop, Part: part, Tier: r.Tier, Seed: r.Seed, Batch: r.Batch, NBatch: r.NBatch,
		Counters: map[string]int64{}, Cross: map[string]int64{}}
	if jp := os.Getenv("VERIF_JOURNAL"); jp != "" {
		f, err := os.OpenFile(jp, os.O_CREATE|os.O_WRONLY|os.O_APPEND, 0o644)
		if err == nil {
			r.journal = f
		}
	}
	return r
}

// Tiered picks a size by tier. VERIF_SCALE (float) scales it, for experiments.
func (r *Runner) Tiered(quick, thorough int) int {
	n := quick
	if r.Tier == "thorough" {
		n = thorough
	}
	if s := os.Getenv("VERIF_SCALE"); s != "" {
		if f, err := strconv.ParseFloat(s, 64); err == nil {
			n = int(float64(n) * f)
		}
	}
	return max(n, 1)
}

func (r *Runner) Thorough() bool { return r.Tier == "thorough" }

// Mine reports whether case idx belongs to this batch (or is the replayed one).
func (r *Runner) Mine(idx int) bool {
	if r.ReplayIdx >= 0 {
		return idx == r.ReplayIdx
	}
	return idx%r.NBatch == r.Batch
}

// Rand returns the PRNG of case idx: a function of (seed, property, part, idx) only.
func (r *Runner) Rand(idx int) *rand.Rand {
	h := sha256.Sum256([]byte(fmt.Sprintf("%d|%s|%s|%d", r.Seed, r.Prop, r.Part, idx)))
	return rand.New(rand.NewPCG(binary.LittleEndian.Uint64(h[:8]), binary.LittleEndian.Uint64(h[8:16])))
}

// Begin journals the case before it is executed.
func (r *Runner) Begin(idx int, c any) {
	r.mu.Lock()
	defer r.mu.Unlock()
	r.CurIdx, r.CurCase = idx, c
	r.res.Evaluations++
	if r.journal != nil {
		b, _ := json.Marshal(c)
		if len(b) > 1<<16 {
			b = b[:1<<16]
		}
		fmt.Fprintf(r.journal, "CASE %d %s\n", idx, b)
	}
	if r.Verbose {
		b, _ := json.MarshalIndent(c, "", "  ")
		fmt.Printf("CASE %d\n%s\n", idx, b)
	}
}

// AddEvaluations counts additional executions inside one journalled case.
func (r *Runner) AddEvaluations(n int) {
	r.mu.Lock()
	r.res.Evaluations += int64(n)
	r.mu.Unlock()
}

func (r *Runner) Count(name string, n int) {
	r.mu.Lock()
	r.res.Counters[name] += int64(n)
	r.mu.Unlock()
}

func (r *Runner) CrossObs(name string, n int) {
	r.mu.Lock()
	r.res.Cross[name] += int64(n)
	r.mu.Unlock()
}

// SetAdd records a member of a named set of distinct things seen (bounded).
func (r *Runner) SetAdd(set, member string) {
	r.mu.Lock()
	m := r.sets[set]
	if m == nil {
		m = map[string]struct{}{}
		r.sets[set] = m
	}
	if len(m) < 5000 {
		m[member] = struct{}{}
	}
	r.mu.Unlock()
}

// Nontrivial records that the case identified by key exercised the antecedent.
func (r *Runner) Nontrivial(key string) {
	h := sha256.Sum256([]byte(key))
	r.mu.Lock()
	r.nt[binary.LittleEndian.Uint64(h[:8])] = struct{}{}
	r.mu.Unlock()
}

func (r *Runner) Sample(s any) {
	r.mu.Lock()
	if len(r.res.Samples) < r.maxSamples {
		r.res.Samples = append(r.res.Samples, s)
	}
	r.mu.Unlock()
}

func (r *Runner) WantSample() bool {
	r.mu.Lock()
	defer r.mu.Unlock()
	return len(r.res.Samples) < r.maxSamples
}

func (r *Runner) Inconclusive(why string) {
	r.mu.Lock()
	if len(r.res.Inconclusive) < 50 {
		r.res.Inconclusive = append(r.res.Inconclusive, why)
	}
	r.res.Counters["inconclusive"]++
	r.mu.Unlock()
}

// Violation records a refutation (at most 5 per signature are kept in full).
func (r *Runner) Violation(clause, sig, msg string, observed any) {
	r.mu.Lock()
	defer r.mu.Unlock()
	full := r.Prop + "/" + clause + "/" + sig
	r.sigSeen[full]++
	r.res.Counters["violations_raw"]++
	if r.sigSeen[full] > 3 {
		return
	}
	r.res.Violations = append(r.res.Violations, Violation{
		Property: r.Prop, Clause: clause, Signature: clause + "/" + sig, Message: msg,
		Part: r.Part, Idx: r.CurIdx, Case: r.CurCase, Observed: observed,
	})
	if r.Verbose {
		fmt.Printf("VIOLATION-DETAIL clause=%s sig=%s\n  %s\n", clause, sig, msg)
	}
}

func (r *Runner) SetExhaustive(b bool) { r.res.Exhaustive = b }

// Bubble runs f inside a synctest bubble and converts a bubble deadlock (or
// any panic on the bubble's root goroutine) into a returned string.
func (r *Runner) Bubble(f func()) (failure string) {
	// synctest.Test calls t.FailNow (runtime.Goexit) on the calling goroutine
	// when the bubble's T failed, e.g. after a race report; run it on a
	// goroutine of its own so that the case loop survives.
	done := make(chan struct{})
	go func() {
		defer close(done)
		defer func() {
			if p := recover(); p != nil {
				failure = fmt.Sprintf("%v", p)
				if !strings.Contains(failure, "deadlock") {
					failure += "\n" + string(debug.Stack())
				}
			}
		}()
		synctest.Test(r.T, func(*testing.T) { f() })
	}()
	<-done
	return failure
}

// Done marks the workload as having run to its end; a result without it is
// treated as an abnormal death by the orchestrator.
func (r *Runner) Done() {
	r.mu.Lock()
	r.completed = true
	r.mu.Unlock()
}

// Finish writes the result file.
func (r *Runner) Finish() {
	r.mu.Lock()
	defer r.mu.Unlock()
	r.res.Complete = r.completed
	r.res.WallS = time.Since(r.start).Seconds()
	r.res.Nontrivial = make([]uint64, 0, len(r.nt))
	for h := range r.nt {
		r.res.Nontrivial = append(r.res.Nontrivial, h)
	}
	sort.Slice(r.res.Nontrivial, func(i, j int) bool { return r.res.Nontrivial[i] < r.res.Nontrivial[j] })
	r.res.Sets = map[string][]string{}
	for name, m := range r.sets {
		l := make([]string, 0, len(m))
		for k := range m {
			l = append(l, k)
		}
		sort.Strings(l)
		r.res.Sets[name] = l
	}
	if r.journal != nil {
		fmt.Fprintf(r.journal, "DONE\n")
		r.journal.Close()
	}
	if r.outPath != "" {
		b, err := json.Marshal(r.res)
		if err == nil {
			tmp := r.outPath + ".tmp"
			if os.WriteFile(tmp, b, 0o644) == nil {
				os.Rename(tmp, r.outPath)
			}
		}
	} else {
		// stand-alone `go test` use: print a summary and fail on violations
		b, _ := json.MarshalIndent(map[string]any{"evaluations": r.res.Evaluations, "nontrivial": len(r.nt),
			"counters": r.res.Counters, "violations": len(r.res.Violations), "inconclusive": r.res.Inconclusive}, "", " ")
		fmt.Println(string(b))
		for _, v := range r.res.Violations {
			fmt.Printf("VIOLATION-DETAIL %s idx=%d sig=%s\n  %s\n", v.Property, v.Idx, v.Signature, v.Message)
		}
	}
}
