package kv

import (
	"bytes"
	"errors"
	"fmt"
	"io"
	"math/rand/v2"
	"net/http"
	"os"
	"path/filepath"
	"runtime"
	"strings"
	"sync"
	"testing"

	"github.com/bartventer/httpcache"
	"github.com/bartventer/httpcache/store"
	"github.com/bartventer/httpcache/store/driver"
	"github.com/bartventer/httpcache/store/fscache"

	"verif/harness/run"
)

// encConfigs: every way of switching encryption on.
var encConfigs = []string{"option", "dsn-on-key", "dsn-aesgcm-key", "dsn-on-env", "dsn-aesgcm-env"}

func openEnc(cfg, dir, key string) (driver.Conn, error) {
	os.Unsetenv("FSCACHE_ENCRYPT_KEY")
	base := "fscache://" + dir + "?appname=c"
	switch cfg {
	case "option":
		return fscache.Open("c", fscache.WithBaseDir(dir), fscache.WithEncryption(key))
	case "dsn-on-key":
		return store.Open(base + "&encrypt=on&encrypt_key=" + key)
	case "dsn-aesgcm-key":
		return store.Open(base + "&encrypt=aesgcm&encrypt_key=" + key)
	case "dsn-on-env":
		os.Setenv("FSCACHE_ENCRYPT_KEY", key)
		defer os.Unsetenv("FSCACHE_ENCRYPT_KEY")
		return store.Open(base + "&encrypt=on")
	case "dsn-aesgcm-env":
		os.Setenv("FSCACHE_ENCRYPT_KEY", key)
		defer os.Unsetenv("FSCACHE_ENCRYPT_KEY")
		return store.Open(base + "&encrypt=aesgcm")
	}
	return nil, fmt.Errorf("unknown config")
}

func readFiles(dir string) map[string][]byte {
	out := map[string][]byte{}
	filepath.WalkDir(dir, func(p string, d os.DirEntry, err error) error {
		if err == nil && !d.IsDir() {
			if b, e := os.ReadFile(p); e == nil {
				out[p] = b
			}
		}
		return nil
	})
	return out
}

// plaintextLeak looks for an 8-byte window of value v inside blob.
type fileBlob struct {
	path string
	blob []byte
}

// readOne finds the file that changes when key is deleted and set again
// (no knowledge of the file-name mapping needed).
func readOne(dir string, files map[string][]byte, key string, conn driver.Conn) (fileBlob, error) {
	v, err := conn.Get(key)
	if err != nil {
		return fileBlob{}, err
	}
	if err := conn.Delete(key); err != nil {
		return fileBlob{}, err
	}
	gone := ""
	now := readFiles(dir)
	for p := range files {
		if _, ok := now[p]; !ok {
			gone = p
		}
	}
	if err := conn.Set(key, v); err != nil {
		return fileBlob{}, err
	}
	if gone == "" {
		return fileBlob{}, nil
	}
	return fileBlob{path: gone, blob: readFiles(dir)[gone]}, nil
}

func plaintextLeak(blob, v []byte) (int, bool) {
	if len(v) < 8 {
		if len(v) >= 4 && bytes.Contains(blob, v) {
			return 0, true
		}
		return 0, false
	}
	step := 1
	if len(v) > 4096 {
		step = 32 // the payload carries a distinct marker every 32 bytes
	}
	for i := 0; i+8 <= len(v); i += step {
		if bytes.Contains(blob, v[i:i+8]) {
			return i, true
		}
	}
	return 0, false
}

// TestC17Confidential: on-disk bytes are ciphertext for every configuration
// path; same value twice gives different bytes; nonces never repeat, also
// under overlapping writes.
func TestC17Confidential(t *testing.T) {
	r := run.Start(t, "C17", "confidential")
	defer r.Finish()
	n := r.Tiered(30, 600)
	nonces := map[string]string{}
	for i := 0; i < n; i++ {
		if !r.Mine(i) {
			continue
		}
		rng := r.Rand(i)
		cfg := encConfigs[i%len(encConfigs)]
		concurrent := i%3 == 2
		c := map[string]any{"config": cfg, "concurrent_writers": concurrent}
		r.Begin(i, c)
		dir := ScratchDir()
		conn, err := openEnc(cfg, dir, TestKeyB64)
		if err != nil {
			r.Violation("open-failed", "config="+cfg, "opening with a valid key failed: "+err.Error(), nil)
			os.RemoveAll(dir)
			continue
		}
		type kvp struct {
			k string
			v []byte
		}
		var vals []kvp
		sizes := []int{1, 7, 17, 100, 1000, 4096, 70000}
		for j, sz := range sizes {
			v := MakeValue(fmt.Sprintf("s%d.%d", i, j), sz, true)
			vals = append(vals, kvp{fmt.Sprintf("http://a.example/conf/%d/%d#%d", i, j, rng.IntN(1000)), v})
		}
		// the same value twice (two keys) and overwritten in place
		same := MakeValue(fmt.Sprintf("same%d", i), 300, true)
		vals = append(vals, kvp{"same-a", same}, kvp{"same-b", same})
		if concurrent {
			var wg sync.WaitGroup
			for w := 0; w < 12; w++ {
				wg.Add(1)
				go func(w int) {
					defer wg.Done()
					for q := 0; q < 6; q++ {
						conn.Set(fmt.Sprintf("conc-%d-%d", w, q), same)
					}
				}(w)
			}
			for _, p := range vals {
				conn.Set(p.k, p.v)
			}
			wg.Wait()
		} else {
			for _, p := range vals {
				if err := conn.Set(p.k, p.v); err != nil {
					r.Inconclusive("Set failed: " + err.Error())
				}
			}
		}
		files := readFiles(dir)
		r.AddEvaluations(len(files))
		byContent := map[string]string{}
		prefixFiles := map[string][]string{}
		for p, blob := range files {
			for _, kv := range vals {
				if off, leak := plaintextLeak(blob, kv.v); leak {
					r.Violation("plaintext-on-disk", "config="+cfg, fmt.Sprintf("file %s contains a plaintext fragment (offset %d) of a stored value (%d bytes); config %s", filepath.Base(p), off, len(kv.v), cfg), nil)
					break
				}
			}
			if len(blob) >= 12 {
				prefixFiles[string(blob[:12])] = append(prefixFiles[string(blob[:12])], p)
			}
			// whatever the layout: no two files may be byte-identical (the same
			// value is written many times, to the same and to different keys)
			if prev, dup := byContent[string(blob)]; dup && prev != p {
				r.Violation("deterministic-ciphertext", fmt.Sprintf("concurrent=%v", concurrent), fmt.Sprintf("two writes produced identical file bytes (%s, %s)", filepath.Base(prev), filepath.Base(p)), nil)
			}
			byContent[string(blob)] = p
		}
		// a 12-byte prefix shared by some files but not by all of them is a
		// repeated nonce (a prefix common to every file would be a constant
		// header of another layout: not judged)
		for nk, ps := range prefixFiles {
			if prev, seen := nonces[nk]; seen && prev != ps[0] {
				ps = append(ps, prev)
			}
			nonces[nk] = ps[0]
			if len(ps) >= 2 && len(ps) < len(files) {
				r.Violation("nonce-reused", fmt.Sprintf("concurrent=%v", concurrent), fmt.Sprintf("%d of %d files start with the same 12 bytes %x (%s, %s)", len(ps), len(files), nk, filepath.Base(ps[0]), filepath.Base(ps[1])), nil)
			} else if len(ps) >= 2 {
				r.Count("constant_prefix_layout_not_judged", 1)
			}
		}
		// the same value written again to the same key: the file changes
		if before, err := readOne(dir, files, vals[0].k, conn); err == nil {
			conn.Set(vals[0].k, vals[0].v)
			if after := readFiles(dir); before.path != "" && bytes.Equal(after[before.path], before.blob) {
				r.Violation("deterministic-ciphertext", fmt.Sprintf("rewrite,concurrent=%v", concurrent), fmt.Sprintf("writing the same value to the same key again left the file bytes unchanged (%s)", filepath.Base(before.path)), nil)
			}
			r.Count("same_key_rewrites_compared", 1)
		}
		// read back through every configuration: same key source => same plaintext
		for _, other := range encConfigs {
			oc, err := openEnc(other, dir, TestKeyB64)
			if err != nil {
				r.Violation("open-failed", "config="+other, "opening with a valid key failed: "+err.Error(), nil)
				continue
			}
			got, err := oc.Get(vals[3].k)
			if err != nil || !bytes.Equal(got, vals[3].v) {
				r.Violation("config-paths-disagree", cfg+"->"+other, fmt.Sprintf("value written via %s cannot be read via %s: %v", cfg, other, err), nil)
			}
		}
		// a wrong key never yields data
		if wc, err := openEnc(cfg, dir, OtherKeyB64); err == nil {
			if got, err := wc.Get(vals[3].k); err == nil {
				r.Violation("wrong-key-yields-data", "config="+cfg, fmt.Sprintf("a cache opened with a different key returned %d bytes", len(got)), nil)
			}
		}
		r.Count("files_scanned", len(files))
		r.Count("config:"+cfg, 1)
		r.Nontrivial(fmt.Sprintf("conf|%d|%s|%v", i, cfg, concurrent))
		if r.WantSample() {
			r.Sample(map[string]any{"case": c, "files": len(files), "values": len(vals)})
		}
		os.RemoveAll(dir)
		runtime.GC()
	}
	r.Done()
}

// TestC17NoKey: enabling encryption without a usable key fails at open.
func TestC17NoKey(t *testing.T) {
	r := run.Start(t, "C17", "nokey")
	defer r.Finish()
	badKeys := map[string]string{
		"absent": "", "not-base64": "!!!not base64!!!", "len-1": "QQ==", "len-15": "MDEyMzQ1Njc4OWFiY2Rl", "len-17": "MDEyMzQ1Njc4OWFiY2RlZmc=", "len-33": "MDEyMzQ1Njc4OWFiY2RlZjAxMjM0NTY3ODlhYmNkZWZn",
		"std-alphabet-with-plus": "++++++++++++++++++++++++++++++++++++++++++8=", "spaces": "   ",
	}
	i := 0
	for name, key := range badKeys {
		for _, cfg := range encConfigs {
			idx := i
			i++
			if !r.Mine(idx) {
				continue
			}
			r.Begin(idx, map[string]string{"key": name, "config": cfg})
			dir := ScratchDir()
			conn, err := openEnc(cfg, dir, key)
			r.Nontrivial(name + "|" + cfg)
			if err == nil {
				// it opened: is what it stores plaintext?
				v := MakeValue("nokey", 200, true)
				conn.Set("k", v)
				leak := false
				for _, blob := range readFiles(dir) {
					if _, l := plaintextLeak(blob, v); l {
						leak = true
					}
				}
				r.Violation("open-without-usable-key", fmt.Sprintf("config=%s,key=%s,plaintext=%v", cfg, name, leak), fmt.Sprintf("encryption requested via %s with an unusable key (%s) but the cache opened (values stored as plaintext: %v)", cfg, name, leak), nil)
			}
			os.RemoveAll(dir)
		}
	}
	r.SetExhaustive(true)
	r.Done()
}

// TestC17Tamper: any modification of a stored file is rejected on read.
func TestC17Tamper(t *testing.T) {
	r := run.Start(t, "C17", "tamper")
	defer r.Finish()
	type tcase struct {
		Size int    `json:"payload_bytes"`
		Kind string `json:"kind"`
		Pos  int    `json:"pos"`
		Arg  int    `json:"arg"`
	}
	var cases []tcase
	sizes := []int{1, 17, 100}
	if r.Thorough() {
		sizes = []int{1, 17, 100, 1000}
	}
	for _, sz := range sizes {
		flen := len(MakeValue("t", sz, true)) + 28
		for pos := 0; pos < flen; pos++ {
			masks := []int{0x01, 0x80, -1, -2} // -1 random mask, -2 set to zero
			if r.Thorough() && sz <= 17 {
				masks = nil
				for m := 1; m < 256; m++ {
					masks = append(masks, m)
				}
				masks = append(masks, -2)
			}
			for _, m := range masks {
				cases = append(cases, tcase{sz, "flip", pos, m})
			}
		}
		for l := 0; l < flen; l++ {
			cases = append(cases, tcase{sz, "truncate", l, 0})
		}
		for _, e := range []int{1, 16, 4096} {
			cases = append(cases, tcase{sz, "extend", 0, e})
		}
		for b := 0; b+32 <= flen; b += 16 {
			cases = append(cases, tcase{sz, "swap-blocks", b, 0})
		}
		for k := 0; k < 20; k++ {
			cases = append(cases, tcase{sz, "multi-edit", k, 0})
		}
		// every byte replaced at once: the file of another entry, written with
		// the same encryption key (same or other length), put in its place
		for _, osz := range []int{sz, sz + 5, 3} {
			cases = append(cases, tcase{sz, "replace-with-other-entry", 0, osz})
		}
		// the file replaced by well-formed *unencrypted* content: the value itself,
		// reference lists and entries as the cache lays them out, typed in or
		// written for the same key by a backend without encryption
		for shape := 0; shape < 2*len(c17Plain); shape++ {
			cases = append(cases, tcase{sz, "replace-with-plaintext", 0, shape})
		}
	}
	for k := 0; k < 40; k++ {
		cases = append(cases, tcase{1 << 20, "flip", -1, k})
	}
	// the file of an entry whose key agrees with this one in its first Pos
	// bytes (both keys Size bytes long), put in its place
	for _, kl := range []int{40, 100, 255, 256, 257, 300, 600, 1100} {
		for _, agree := range []int{kl - 1, kl / 2, 16} {
			cases = append(cases, tcase{kl, "replace-with-similar-key-entry", agree, 0})
		}
	}
	r.SetExhaustive(true)
	// one cache directory per (batch, size): tamper in place, restore afterwards
	dirs := map[int]string{}
	conns := map[int]driver.Conn{}
	orig := map[int][]byte{}
	paths := map[int]string{}
	defer func() {
		for _, d := range dirs {
			os.RemoveAll(d)
		}
	}()
	for i, c := range cases {
		if !r.Mine(i) {
			continue
		}
		if i%200 == 0 || c.Kind != "flip" {
			r.Begin(i, c)
		} else {
			r.AddEvaluations(1)
		}
		if c.Kind == "replace-with-similar-key-entry" {
			c17SimilarKey(r, c.Size, c.Pos)
			r.Nontrivial(fmt.Sprintf("%+v", c))
			r.Count("tamper:"+c.Kind, 1)
			continue
		}
		if _, ok := dirs[c.Size]; !ok {
			d := ScratchDir()
			conn, err := Backend("fsaes", d)
			if err != nil {
				r.Inconclusive(err.Error())
				continue
			}
			if err := conn.Set("http://a.example/t#0", MakeValue("t", c.Size, true)); err != nil {
				r.Inconclusive(err.Error())
				continue
			}
			fs := readFiles(d)
			for p, b := range fs {
				paths[c.Size], orig[c.Size] = p, b
			}
			dirs[c.Size], conns[c.Size] = d, conn
		}
		o := orig[c.Size]
		rng := r.Rand(i)
		mod := append([]byte(nil), o...)
		switch c.Kind {
		case "flip":
			pos := c.Pos
			if pos < 0 {
				pos = rng.IntN(len(mod))
			}
			switch {
			case c.Arg == -1:
				mod[pos] ^= byte(1 + rng.IntN(255))
			case c.Arg == -2:
				if mod[pos] == 0 {
					mod[pos] = 0xff
				} else {
					mod[pos] = 0
				}
			case c.Pos < 0:
				mod[pos] ^= byte(1 + rng.IntN(255))
			default:
				mod[pos] ^= byte(c.Arg)
			}
		case "truncate":
			mod = mod[:c.Pos]
		case "extend":
			ext := make([]byte, c.Arg)
			for j := range ext {
				ext[j] = byte(rng.IntN(256))
			}
			mod = append(mod, ext...)
		case "swap-blocks":
			a := append([]byte(nil), mod[c.Pos:c.Pos+16]...)
			copy(mod[c.Pos:], mod[c.Pos+16:c.Pos+32])
			copy(mod[c.Pos+16:], a)
			if bytes.Equal(mod, o) {
				continue
			}
		case "replace-with-other-entry":
			d2 := ScratchDir()
			c2, err := Backend("fsaes", d2)
			if err == nil {
				err = c2.Set("http://a.example/other#0", MakeValue("other", c.Arg, true))
			}
			fs2 := readFiles(d2)
			os.RemoveAll(d2)
			if err != nil || len(fs2) != 1 {
				r.Inconclusive("cannot produce the other entry")
				continue
			}
			for _, b := range fs2 {
				mod = b
			}
		case "replace-with-plaintext":
			plain := []byte(c17Plain[c.Arg%len(c17Plain)])
			if len(plain) == 0 {
				plain = MakeValue("t", c.Size, true)
			}
			mod = plain
			if c.Arg >= len(c17Plain) {
				d2 := ScratchDir()
				c2, err := Backend("fs", d2)
				if err == nil {
					err = c2.Set("http://a.example/t#0", plain)
				}
				fs2 := readFiles(d2)
				os.RemoveAll(d2)
				if err != nil || len(fs2) != 1 {
					r.Inconclusive("cannot produce the unencrypted file")
					continue
				}
				for _, b := range fs2 {
					mod = b
				}
			}
		case "multi-edit":
			for e := 0; e < 2+rng.IntN(5); e++ {
				mod[rng.IntN(len(mod))] ^= byte(1 + rng.IntN(255))
			}
			if bytes.Equal(mod, o) {
				continue
			}
		}
		os.WriteFile(paths[c.Size], mod, 0o644)
		got, err := conns[c.Size].Get("http://a.example/t#0")
		if err == nil {
			id, intact := ParseValue(got)
			where := "ciphertext"
			switch {
			case c.Kind != "flip":
				where = c.Kind
			case c.Pos >= 0 && c.Pos < 12:
				where = "nonce"
			case c.Pos >= len(o)-16:
				where = "tag"
			}
			r.Violation("tampered-file-accepted", fmt.Sprintf("kind=%s,where=%s", c.Kind, where), fmt.Sprintf("a file altered by %s (pos %d, arg %d; %d -> %d bytes) was accepted: Get returned %d bytes (id %q, intact %v)", c.Kind, c.Pos, c.Arg, len(o), len(mod), len(got), id, intact), nil)
		} else if errors.Is(err, driver.ErrNotExist) {
			r.Count("rejected_as_absent", 1)
		} else {
			r.Count("rejected_with_error", 1)
		}
		r.Nontrivial(fmt.Sprintf("%+v", c))
		r.Count("tamper:"+c.Kind, 1)
		os.WriteFile(paths[c.Size], o, 0o644)
		if r.WantSample() {
			r.Sample(map[string]any{"case": c, "file_bytes": len(o), "modified_bytes": len(mod), "get_error": fmt.Sprint(err)})
		}
	}
	r.Done()
}

// c17Plain: unencrypted contents put in the place of an encrypted file ("" =
// the stored value itself).
var c17Plain = []string{
	"",
	"[]",
	"[null]",
	`[{"id":"planted","vary":"","vary_resolved":{},"received_at":"2026-01-01T00:00:00Z"}]`,
	`["http://a.example/t#planted"]`,
	"planted\t2026-01-01T00:00:00Z\t2026-01-01T00:00:00Z\nHTTP/1.1 200 OK\r\nCache-Control: max-age=100000\r\nContent-Length: 7\r\n\r\nplanted",
	"planted\t1767225600\t1767225600\nHTTP/1.0 200 OK\r\n\r\nplanted",
	"HTTP/1.1 200 OK\r\nContent-Length: 7\r\n\r\nplanted",
	"{}",
}

// c17SimilarKey stores two entries whose keys (kl bytes each) agree in their
// first `agree` bytes, puts the file of the second in the place of the first
// and expects Get of the first key not to hand out the second's value.
func c17SimilarKey(r *run.Runner, kl, agree int) {
	d := ScratchDir()
	defer os.RemoveAll(d)
	conn, err := Backend("fsaes", d)
	if err != nil {
		r.Inconclusive(err.Error())
		return
	}
	mk := func(tail byte) string {
		k := []byte("http://a.example/")
		for len(k) < kl {
			if len(k) < agree {
				k = append(k, byte('a'+len(k)%26))
			} else {
				k = append(k, tail)
			}
		}
		return string(k)
	}
	ka, kb := mk('A'), mk('B')
	if err := conn.Set(ka, MakeValue("first", 17, true)); err != nil {
		r.Inconclusive(err.Error())
		return
	}
	fa := readFiles(d)
	if err := conn.Set(kb, MakeValue("second", 17, true)); err != nil {
		r.Inconclusive(err.Error())
		return
	}
	var pa, pb string
	for p := range readFiles(d) {
		if _, was := fa[p]; was {
			pa = p
		} else {
			pb = p
		}
	}
	if len(fa) != 1 || pa == "" || pb == "" {
		r.Inconclusive(fmt.Sprintf("cannot tell the two entry files apart (%d files after the first write)", len(fa)))
		return
	}
	bb, _ := os.ReadFile(pb)
	os.WriteFile(pa, bb, 0o644)
	got, err := conn.Get(ka)
	if err == nil {
		id, intact := ParseValue(got)
		r.Violation("tampered-file-accepted", fmt.Sprintf("kind=replace-with-similar-key-entry,keylen=%d,agree=%d", kl, agree), fmt.Sprintf("the file of the entry for a key that agrees in its first %d of %d bytes was put in this entry's place and accepted: Get returned %d bytes (id %q, intact %v)", agree, kl, len(got), id, intact), nil)
	} else if errors.Is(err, driver.ErrNotExist) {
		r.Count("rejected_as_absent", 1)
	} else {
		r.Count("rejected_with_error", 1)
	}
}

// TestC17Transport: store three responses through a transport with an
// encrypted fscache DSN, tamper each file in turn, GET => MISS with the
// origin's new token.
func TestC17Transport(t *testing.T) {
	r := run.Start(t, "C17", "transport")
	defer r.Finish()
	n := r.Tiered(20, 300)
	for i := 0; i < n; i++ {
		if !r.Mine(i) {
			continue
		}
		rng := r.Rand(i)
		r.Begin(i, map[string]int{"case": i})
		dir := ScratchDir()
		dsn := transportDSN(dir, "fsaes")
		urls := []string{"http://a.example/x", "http://a.example/y?q=1", "http://b.example/" + strings.Repeat("z", 250)}
		rt := httpcache.NewTransport(dsn, httpcache.WithUpstream(tokenOrigin{"first", 500}))
		for _, u := range urls {
			req, _ := http.NewRequest("GET", u, nil)
			if resp, err := rt.RoundTrip(req); err == nil {
				io.Copy(io.Discard, resp.Body)
			}
		}
		files := readFiles(dir)
		var names []string
		for p := range files {
			names = append(names, p)
		}
		if len(names) < 6 {
			r.Inconclusive(fmt.Sprintf("expected >= 6 files (3 entries + 3 indexes), found %d", len(names)))
		}
		rt2 := httpcache.NewTransport(dsn, httpcache.WithUpstream(tokenOrigin{"second", 500}))
		leaked := false
		for _, b := range files {
			if bytes.Contains(b, []byte("first|")) || bytes.Contains(b, []byte("max-age=100000")) || bytes.Contains(b, []byte("a.example")) {
				leaked = true
			}
		}
		if leaked {
			r.Violation("plaintext-on-disk", "transport", "a file written by the transport through an encrypted DSN contains plaintext of the stored response / index", nil)
		}
		// tamper every file (entries and indexes alike), then GET everything
		for _, p := range names {
			mod := append([]byte(nil), files[p]...)
			switch rng.IntN(3) {
			case 0:
				mod[rng.IntN(len(mod))] ^= byte(1 + rng.IntN(255))
			case 1:
				mod = mod[:rng.IntN(len(mod))]
			default:
				mod = append(mod, byte(rng.IntN(256)))
			}
			os.WriteFile(p, mod, 0o644)
		}
		for _, u := range urls {
			req, _ := http.NewRequest("GET", u, nil)
			resp, err := rt2.RoundTrip(req)
			r.AddEvaluations(1)
			if err != nil {
				r.Violation("tampered-entry-error", "transport", "GET after tampering failed: "+err.Error(), nil)
				continue
			}
			b, _ := io.ReadAll(resp.Body)
			id, intact := ParseValue(b)
			if id != "second" || !intact || resp.Header.Get("X-Httpcache-Status") != "MISS" {
				r.Violation("tampered-entry-served", "transport", fmt.Sprintf("after altering the stored files the transport answered %s with body id %q (intact %v) instead of a MISS with the origin's new response", resp.Header.Get("X-Httpcache-Status"), id, intact), nil)
			}
		}
		r.Nontrivial(fmt.Sprintf("transport|%d", i))
		os.RemoveAll(dir)
		runtime.GC()
	}
	r.Done()
}

var _ = rand.IntN
