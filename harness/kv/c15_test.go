package kv

import (
	"bufio"
	"bytes"
	"errors"
	"fmt"
	"math/rand/v2"
	"os"
	"os/exec"
	"path/filepath"
	"runtime"
	"strconv"
	"strings"
	"syscall"
	"testing"
	"time"

	"github.com/anishathalye/porcupine"
	"github.com/bartventer/httpcache/store/driver"

	"verif/harness/run"
)

// lenientRegister: Set(v) -> v; Delete -> absent; a Get returning value v is
// legal iff state = v; a Get reporting absent or an error is always legal.
var lenientRegister = porcupine.Model{
	Init: func() any { return "" },
	Step: func(state, in, out any) (bool, any) {
		i, o, s := in.(regIn), out.(regOut), state.(string)
		switch i.Op {
		case "set":
			if o.Err {
				// a failed Set may or may not have taken effect: model both by accepting either state later
				return true, s
			}
			return true, i.Val
		case "delete":
			return true, ""
		default:
			if o.Absent || o.Err {
				return true, s
			}
			return !o.Garbage && o.Val == s, s
		}
	},
	DescribeOperation: func(in, out any) string { return fmt.Sprintf("%+v -> %+v", in, out) },
}

// TestC15Concurrent: writers, readers and deleters on 1-3 keys of the fs
// backend; every Get result must be an intact value, and each key's history
// must be linearizable against the lenient register.
func TestC15Concurrent(t *testing.T) {
	r := run.Start(t, "C15", "concurrent")
	defer r.Finish()
	n := r.Tiered(120, 5000)
	for i := 0; i < n; i++ {
		if !r.Mine(i) {
			continue
		}
		rng := r.Rand(i)
		backend := pick(rng, []string{"fs", "fs", "fsaes", "fsmt"})
		nkeys := 1 + rng.IntN(3)
		nclients := 4 + rng.IntN(6)
		opsPer := 12 + rng.IntN(20)
		withDelete := chance(rng, 0.5)
		r.Begin(i, map[string]any{"backend": backend, "keys": nkeys, "clients": nclients, "ops_per_client": opsPer, "delete": withDelete})
		dir := ScratchDir()
		conn, err := Backend(backend, dir)
		if err != nil {
			r.Inconclusive(err.Error())
			os.RemoveAll(dir)
			continue
		}
		tag := fmt.Sprintf("h%d", i)
		if i%3 == 1 {
			tag = fmt.Sprintf("long%d", i) // several long keys: values must not wander between keys
			nkeys = 3
		}
		hist := concurrentHistory(conn, nkeys, nclients, opsPer, rng.Uint64(), tag, withDelete)
		torn, reads, getErrs := 0, 0, 0
		for k, ops := range hist {
			for _, o := range ops {
				if o.Input.(regIn).Op == "get" {
					reads++
					if o.Output.(regOut).Garbage {
						torn++
					}
					if out := o.Output.(regOut); out.Err {
						// no fault is injected here: a Get answers with a value or with "absent"
						getErrs++
						if getErrs <= 2 {
							r.Violation("get-neither-value-nor-absent", "backend="+backend, fmt.Sprintf("a Get concurrent with Sets and Deletes of the key returned an error that is not ErrNotExist: %.200s (backend %s)", out.ErrText, backend), nil)
						}
					}
				}
			}
			res, _ := porcupine.CheckOperationsVerbose(lenientRegister, ops, 10*time.Second)
			switch res {
			case porcupine.Illegal:
				r.Violation("not-linearizable", "backend="+backend, fmt.Sprintf("history of key %d (%d operations, %d clients, backend %s) is not linearizable against the register model", k, len(ops), nclients, backend), describeOps(ops, 40))
			case porcupine.Unknown:
				r.Inconclusive("porcupine timeout")
			}
		}
		r.AddEvaluations(reads)
		r.Count("reads", reads)
		r.Count("histories", 1)
		if torn > 0 {
			r.Violation("torn-read", "backend="+backend, fmt.Sprintf("%d of %d concurrent Gets returned bytes that are not, in full, a value ever passed to Set (backend %s, %d clients)", torn, reads, backend, nclients), nil)
		} else if reads > 0 {
			r.Nontrivial(fmt.Sprintf("conc|%d|%s|%d|%d|%d", i, backend, nkeys, nclients, opsPer))
		}
		if r.WantSample() {
			var sample []string
			for _, ops := range hist {
				sample = describeOps(ops, 8)
				break
			}
			r.Sample(map[string]any{"backend": backend, "clients": nclients, "keys": nkeys, "reads": reads, "torn": torn, "first_ops_of_one_key": sample})
		}
		os.RemoveAll(dir)
		runtime.GC()
	}
	r.Done()
}

// ---- child process ------------------------------------------------------------

// TestChild is the re-executed helper: it performs one store operation under
// a fault and reports on stdout (a pipe: RLIMIT_FSIZE does not apply to it).
func TestChild(t *testing.T) {
	mode := os.Getenv("VERIF_CHILD_MODE")
	if mode == "" {
		t.Skip("not a child")
	}
	dir := os.Getenv("VERIF_CHILD_DIR")
	backend := os.Getenv("VERIF_CHILD_BACKEND")
	key := os.Getenv("VERIF_CHILD_KEY")
	size, _ := strconv.Atoi(os.Getenv("VERIF_CHILD_SIZE"))
	id := os.Getenv("VERIF_CHILD_ID")
	conn, err := Backend(backend, dir)
	if err != nil {
		fmt.Println("CHILD open-error", err)
		return
	}
	switch mode {
	case "set":
		err := conn.Set(key, MakeValue(id, size, false))
		fmt.Println("CHILD set", err == nil, err)
	case "cut":
		k, _ := strconv.Atoi(os.Getenv("VERIF_CHILD_CUT"))
		v := MakeValue(id, size, false)
		lim := syscall.Rlimit{Cur: uint64(k), Max: uint64(k)}
		if err := syscall.Setrlimit(syscall.RLIMIT_FSIZE, &lim); err != nil {
			fmt.Println("CHILD rlimit-error", err)
			return
		}
		err := conn.Set(key, v)
		fmt.Println("CHILD set", err == nil, err)
	case "loop":
		// keep overwriting until killed (and never longer than 20 s: a child
		// that escapes its killer must not linger)
		fmt.Println("CHILD ready")
		start := time.Now()
		for i := 0; time.Since(start) < 20*time.Second; i++ {
			v := MakeValue(fmt.Sprintf("%s.%d", id, i), size, false)
			if err := conn.Set(key, v); err != nil {
				fmt.Println("CHILD set-error", err)
			}
		}
	case "transport":
		childTransport(dir, backend)
	}
}

func childCmd(env map[string]string) *exec.Cmd {
	cmd := exec.Command(os.Args[0], "-test.run", "^TestChild$", "-test.count=1")
	cmd.Env = os.Environ()
	for k, v := range env {
		cmd.Env = append(cmd.Env, k+"="+v)
	}
	// a child must not write a result file or journal of its own
	cmd.Env = append(cmd.Env, "VERIF_OUT=", "VERIF_JOURNAL=", "VERIF_PROP=", "VERIF_PART=")
	return cmd
}

// diskState classifies what a crash or failed write left in dir for one key.
func diskState(dir string) (files int, temps int, sizes []int64) {
	filepath.WalkDir(dir, func(p string, d os.DirEntry, err error) error {
		if err != nil || d.IsDir() {
			return nil
		}
		if strings.HasPrefix(d.Name(), ".tmp-") {
			temps++
		} else {
			files++
		}
		if fi, err := d.Info(); err == nil {
			sizes = append(sizes, fi.Size())
		}
		return nil
	})
	return
}

// judgeGet opens dir afresh and reads key: the result must be a full value
// ever passed to Set for it, or absent.
func judgeGet(r *run.Runner, backend, dir, key string, allowed map[string]bool, sig, what string) string {
	conn, err := Backend(backend, dir)
	if err != nil {
		r.Inconclusive("reopen: " + err.Error())
		return "reopen-error"
	}
	v, err := conn.Get(key)
	switch {
	case errors.Is(err, driver.ErrNotExist):
		return "absent"
	case err != nil:
		return "error" // reports a failure: allowed ("or reports the key absent" read leniently)
	}
	id, intact := ParseValue(v)
	if !intact {
		r.Violation("partial-value", sig, fmt.Sprintf("%s: Get returned %d bytes that are not, in full, a value ever passed to Set (value id %q)", what, len(v), id), nil)
		return "PARTIAL"
	}
	base := id
	if i := strings.LastIndexByte(id, '.'); i > 0 && !allowed[id] {
		base = id[:i]
	}
	if !allowed[id] && !allowed[base] {
		r.Violation("foreign-value", sig, fmt.Sprintf("%s: Get returned value %q which was never passed to Set for this key", what, id), nil)
		return "FOREIGN"
	}
	return "full:" + base
}

// judgeRecovery: after a cut or killed write, the reopened backend must still
// work as a map for that key - the listing agrees with what Get said, and a
// later (shorter) Set is read back exactly, not spliced with leftovers.
func judgeRecovery(r *run.Runner, backend, dir, key, res, sig, what string) {
	conn, err := Backend(backend, dir)
	if err != nil {
		return
	}
	if kl, ok := conn.(keyLister); ok && (strings.HasPrefix(res, "full:") || res == "absent") {
		ks, err := kl.Keys("")
		switch {
		case err != nil:
			r.Violation("listing-fails-after-crash", sig, fmt.Sprintf("%s: Keys(\"\") fails: %.300s", what, err.Error()), nil)
		case res == "absent" && len(ks) != 0, strings.HasPrefix(res, "full:") && (len(ks) != 1 || ks[0] != key):
			r.Violation("listing-wrong-after-crash", sig, fmt.Sprintf("%s: Get says %s but Keys(\"\") lists %d keys", what, res, len(ks)), nil)
		}
		r.Count("listings_after_crash", 1)
	}
	rec := MakeValue("rec", 37, false)
	if err := conn.Set(key, rec); err != nil {
		r.Violation("set-fails-after-crash", sig, fmt.Sprintf("%s: a later Set of the key fails: %.300s", what, err.Error()), nil)
		return
	}
	got, err := conn.Get(key)
	if err != nil || !bytes.Equal(got, rec) {
		id, intact := ParseValue(got)
		r.Violation("recovery-write-damaged", sig, fmt.Sprintf("%s: a later Set of a %d-byte value reads back as %d bytes (id %q, intact %v, err %v)", what, len(rec), len(got), id, intact, err), nil)
	}
	r.Count("recovery_writes_checked", 1)
}

// TestC15Cut: a child Sets a value while RLIMIT_FSIZE cuts the write after
// exactly k bytes, for every k.
func TestC15Cut(t *testing.T) {
	r := run.Start(t, "C15", "cut")
	defer r.Finish()
	type cutCase struct {
		Backend string `json:"backend"`
		Size    int    `json:"value_payload_bytes"`
		Cut     int    `json:"cut_at_byte"`
		Old     bool   `json:"previous_value"`
	}
	var cases []cutCase
	sizes := []int{64}
	if r.Thorough() {
		sizes = []int{1, 64, 300}
	}
	for _, be := range []string{"fs", "fsaes"} {
		for _, sz := range sizes {
			total := len(MakeValue("new", sz, false))
			if be == "fsaes" {
				total += 28
			}
			for k := 0; k <= total; k++ {
				for _, old := range []bool{false, true} {
					cases = append(cases, cutCase{be, sz, k, old})
				}
			}
		}
		// sampled cut points of a 64 KiB value
		ns := 12
		if r.Thorough() {
			ns = 120
		}
		rng := r.Rand(-1)
		for j := 0; j < ns; j++ {
			cases = append(cases, cutCase{be, 65536, rng.IntN(65536 + 80), j%2 == 0})
		}
	}
	r.SetExhaustive(true)
	for i, c := range cases {
		if !r.Mine(i) {
			continue
		}
		r.Begin(i, c)
		dir := ScratchDir()
		key := "http://a.example/cut#0"
		if i%3 == 1 {
			key += strings.Repeat("k", 250) // fragment directories
		}
		allowed := map[string]bool{"new": true}
		if c.Old {
			conn, err := Backend(c.Backend, dir)
			if err == nil {
				err = conn.Set(key, MakeValue("old", c.Size/2+3, false))
			}
			if err != nil {
				r.Inconclusive("cannot store previous value: " + err.Error())
				os.RemoveAll(dir)
				continue
			}
			allowed["old"] = true
		}
		out, err := childCmd(map[string]string{"VERIF_CHILD_MODE": "cut", "VERIF_CHILD_DIR": dir, "VERIF_CHILD_BACKEND": c.Backend, "VERIF_CHILD_KEY": key,
			"VERIF_CHILD_SIZE": strconv.Itoa(c.Size), "VERIF_CHILD_ID": "new", "VERIF_CHILD_CUT": strconv.Itoa(c.Cut)}).Output()
		setOK := strings.Contains(string(out), "CHILD set true")
		if !strings.Contains(string(out), "CHILD set") {
			r.Inconclusive(fmt.Sprintf("child did not report (err %v): %s", err, firstLine(string(out))))
			os.RemoveAll(dir)
			continue
		}
		files, temps, sizes := diskState(dir)
		res := judgeGet(r, c.Backend, dir, key, allowed, fmt.Sprintf("backend=%s,old=%v,set-ok=%v", c.Backend, c.Old, setOK),
			fmt.Sprintf("after a write cut at byte %d of a %d-byte payload (Set reported ok=%v)", c.Cut, c.Size, setOK))
		judgeRecovery(r, c.Backend, dir, key, res, fmt.Sprintf("backend=%s,old=%v", c.Backend, c.Old), fmt.Sprintf("after a write cut at byte %d of a %d-byte payload", c.Cut, c.Size))
		if setOK && res != "full:new" && res != "PARTIAL" {
			r.Violation("acknowledged-write-lost", "backend="+c.Backend, fmt.Sprintf("Set reported success under a file-size limit of %d bytes but Get gives %s", c.Cut, res), nil)
		}
		if !setOK && c.Old && res == "absent" {
			r.Count("failed_write_dropped_previous_value", 1)
		}
		r.Count("get_after_cut:"+res, 1)
		r.Count(fmt.Sprintf("set_reported_ok:%v", setOK), 1)
		r.SetAdd("disk_states", fmt.Sprintf("files=%d temps=%d setok=%v", files, temps, setOK))
		r.Nontrivial(fmt.Sprintf("%+v", c))
		if r.WantSample() && !setOK {
			r.Sample(map[string]any{"case": c, "set_ok": setOK, "files": files, "temp_files": temps, "file_sizes": sizes, "get": res})
		}
		os.RemoveAll(dir)
	}
	r.Done()
}

func firstLine(s string) string {
	if i := strings.IndexByte(s, '\n'); i >= 0 {
		return s[:i]
	}
	return s
}

// TestC15Kill: a child keeps overwriting one key with large values and is
// killed (timed SIGKILL, or strace signal injection at a syscall boundary);
// the parent classifies the on-disk state it finds and then Gets.
func TestC15Kill(t *testing.T) {
	r := run.Start(t, "C15", "kill")
	defer r.Finish()
	n := r.Tiered(60, 1500)
	_, straceErr := exec.LookPath("strace")
	for i := 0; i < n; i++ {
		if !r.Mine(i) {
			continue
		}
		rng := r.Rand(i)
		backend := pick(rng, []string{"fs", "fs", "fsaes"})
		mode := "timed"
		if straceErr == nil && i%2 == 1 {
			mode = "strace"
		}
		size := pick(rng, []int{1 << 20, 8 << 20, 32 << 20})
		if mode == "strace" {
			size = pick(rng, []int{100, 100000})
		}
		old := chance(rng, 0.7)
		sc := pick(rng, []string{"write", "fsync", "renameat2", "renameat", "openat", "close", "rename"})
		when := 1 + rng.IntN(6)
		delayMs := 1 + rng.IntN(150)
		c := map[string]any{"backend": backend, "mode": mode, "payload_bytes": size, "previous_value": old, "syscall": sc, "when": when, "delay_ms": delayMs}
		r.Begin(i, c)
		dir := ScratchDir()
		key := "http://a.example/kill#0"
		if i%3 == 1 {
			key += strings.Repeat("k", 250)
		}
		allowed := map[string]bool{"loop": true}
		if old {
			if conn, err := Backend(backend, dir); err == nil {
				if conn.Set(key, MakeValue("old", 1000, false)) == nil {
					allowed["old"] = true
				}
			}
		}
		env := map[string]string{"VERIF_CHILD_MODE": "loop", "VERIF_CHILD_DIR": dir, "VERIF_CHILD_BACKEND": backend, "VERIF_CHILD_KEY": key,
			"VERIF_CHILD_SIZE": strconv.Itoa(size), "VERIF_CHILD_ID": "loop"}
		cmd := childCmd(env)
		if mode == "strace" {
			inner := cmd
			args := []string{"-f", "-qq", "-o", "/dev/null", "-e", "trace=" + sc, "-e", fmt.Sprintf("inject=%s:signal=KILL:when=%d+", sc, 40+when), os.Args[0], "-test.run", "^TestChild$", "-test.count=1"}
			cmd = exec.Command("strace", args...)
			cmd.Env = inner.Env
		}
		// own process group, killed as a whole (strace's tracee must die with it)
		cmd.SysProcAttr = &syscall.SysProcAttr{Setpgid: true, Pdeathsig: syscall.SIGKILL}
		stdout, _ := cmd.StdoutPipe()
		if err := cmd.Start(); err != nil {
			r.Inconclusive("cannot start child: " + err.Error())
			os.RemoveAll(dir)
			continue
		}
		ready := make(chan bool, 1)
		go func() {
			sc := bufio.NewScanner(stdout)
			for sc.Scan() {
				if strings.Contains(sc.Text(), "CHILD ready") {
					ready <- true
				}
			}
			close(ready)
		}()
		select {
		case <-ready:
		case <-time.After(20 * time.Second):
		}
		pgid := cmd.Process.Pid
		if mode == "timed" {
			time.Sleep(time.Duration(delayMs) * time.Millisecond)
			syscall.Kill(-pgid, syscall.SIGKILL)
		} else {
			// strace kills the child at the injected syscall; give it a moment, then make sure
			done := make(chan struct{})
			go func() { cmd.Wait(); close(done) }()
			select {
			case <-done:
			case <-time.After(3 * time.Second):
			}
		}
		syscall.Kill(-pgid, syscall.SIGKILL) // whatever is left of the group
		cmd.Wait()
		files, temps, sizes := diskState(dir)
		res := judgeGet(r, backend, dir, key, allowed, fmt.Sprintf("backend=%s,mode=%s", backend, mode), fmt.Sprintf("after the writer was killed (%s)", mode))
		judgeRecovery(r, backend, dir, key, res, fmt.Sprintf("backend=%s,mode=%s", backend, mode), fmt.Sprintf("after the writer was killed (%s)", mode))
		state := "complete-file"
		switch {
		case files == 0:
			state = "no-file"
		case res == "PARTIAL":
			state = "partial-file"
		}
		if temps > 0 {
			state += "+stray-temp"
		}
		r.SetAdd("disk_states_after_kill", fmt.Sprintf("%s/%s", mode, state))
		r.Count("get_after_kill:"+strings.SplitN(res, ".", 2)[0], 1)
		r.Count("kills:"+mode, 1)
		r.Nontrivial(fmt.Sprintf("%v", c))
		if r.WantSample() && temps > 0 {
			r.Sample(map[string]any{"case": c, "files": files, "temp_files": temps, "sizes": sizes, "get": res})
		}
		os.RemoveAll(dir)
	}
	r.Done()
}

var _ = rand.IntN
