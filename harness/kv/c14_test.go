package kv

import (
	"bytes"
	"encoding/base64"
	"encoding/json"
	"errors"
	"fmt"
	"io"
	"math/rand/v2"
	"net/http"
	"net/http/httptest"
	"net/url"
	"os"
	"runtime"
	"sort"
	"strings"
	"sync"
	"testing"
	"time"
	"unicode/utf8"

	"github.com/anishathalye/porcupine"
	"github.com/bartventer/httpcache/store/driver"
	"github.com/bartventer/httpcache/store/expapi"
	"github.com/bartventer/httpcache/store/fscache"
	"github.com/bartventer/httpcache/store/memcache"

	"verif/harness/run"
)

type kvOp struct {
	Op     string `json:"op"` // set get delete keys mutate-after-set mutate-got reopen
	Key    int    `json:"key,omitempty"`
	Size   int    `json:"size,omitempty"`
	Prefix string `json:"prefix,omitempty"`
}

type c14Case struct {
	Config string   `json:"config"` // mem | fs | fsaes | fs-reopen | expapi-fs | expapi-fsaes
	KeysB  []string `json:"keys_hex"`
	Ops    []kvOp   `json:"ops"`
	keys   []string
}

type keyLister interface {
	Keys(prefix string) ([]string, error)
}

func genC14(r *rand.Rand, thorough bool) c14Case {
	c := c14Case{Config: pick(r, []string{"mem", "fs", "fs", "fsaes", "fs-reopen", "fs-reopen", "expapi-fs", "expapi-fsaes"})}
	c.keys = KeyPool(r, 4+r.IntN(12))
	for _, k := range c.keys {
		c.KeysB = append(c.KeysB, fmt.Sprintf("%x", k))
	}
	n := 30 + r.IntN(171)
	if !thorough {
		n = 30 + r.IntN(60)
	}
	for i := 0; i < n; i++ {
		op := kvOp{Key: r.IntN(len(c.keys))}
		switch x := r.IntN(100); {
		case x < 35:
			op.Op = "set"
			op.Size = pick(r, ValueSizes)
			if op.Size >= 65536 && r.IntN(4) != 0 {
				op.Size = r.IntN(300)
			}
		case x < 60:
			op.Op = "get"
		case x < 75:
			op.Op = "delete"
		case x < 85:
			op.Op = "keys"
			k := c.keys[op.Key]
			switch r.IntN(4) {
			case 0:
				op.Prefix = ""
			case 1:
				op.Prefix = k[:r.IntN(len(k)+1)]
			case 2:
				op.Prefix = k
			default:
				op.Prefix = k + "x"
			}
		case x < 90:
			op.Op = "mutate-after-set"
			op.Size = 1 + r.IntN(200)
		case x < 95:
			op.Op = "mutate-got"
		default:
			op.Op = "reopen"
		}
		c.Ops = append(c.Ops, op)
	}
	return c
}

// scriptedC14: keys whose nested fragment directories are deeper than
// PATH_MAX (4096 bytes) - reached one component at a time by Set/Get/Delete -
// with listings while they are live, on every file-system configuration.
func scriptedC14(i int) c14Case {
	c := c14Case{Config: []string{"fs", "fs-reopen", "fsaes", "expapi-fs", "expapi-fsaes", "fs-reopen"}[i%6]}
	L := []int{3100, 6000}[i/6%2]
	const a = "http://a.example/path?q=1#0123456789abcdefghijklmnopqrstuvwxyz"
	long := strings.Repeat(a, L/len(a)+1)[:L]
	c.keys = []string{long, long + "x", "s", long[:L-1]}
	for _, k := range c.keys {
		c.KeysB = append(c.KeysB, fmt.Sprintf("%x", k))
	}
	c.Ops = []kvOp{{Op: "set", Key: 0, Size: 17}, {Op: "set", Key: 2, Size: 100}, {Op: "keys", Key: 0, Prefix: ""}, {Op: "get", Key: 0},
		{Op: "set", Key: 1, Size: 4097}, {Op: "keys", Key: 0, Prefix: long[:100]}, {Op: "reopen"}, {Op: "keys", Key: 0, Prefix: ""},
		{Op: "delete", Key: 0}, {Op: "keys", Key: 0, Prefix: ""}, {Op: "get", Key: 1}, {Op: "get", Key: 0}, {Op: "set", Key: 3, Size: 1},
		{Op: "keys", Key: 3, Prefix: long[:L-1]}, {Op: "delete", Key: 1}, {Op: "delete", Key: 3}, {Op: "keys", Key: 2, Prefix: ""}, {Op: "get", Key: 2}}
	return c
}

func TestC14Seq(t *testing.T) {
	r := run.Start(t, "C14", "sequences")
	defer r.Finish()
	n := r.Tiered(600, 30000)
	for i := 0; i < n; i++ {
		if !r.Mine(i) {
			continue
		}
		c := genC14(r.Rand(i), r.Thorough())
		if i < 12 {
			c = scriptedC14(i)
		}
		r.Begin(i, c)
		c14Run(r, c, i)
		if i%20 == 0 {
			runtime.GC()
		}
	}
	r.Done()
}

// apiConn speaks to a backend through the maintenance HTTP API.
type apiConn struct {
	mux *http.ServeMux
	dsn string
}

func (a *apiConn) do(method, path string) (int, []byte) {
	req := httptest.NewRequest(method, path, nil)
	w := httptest.NewRecorder()
	a.mux.ServeHTTP(w, req)
	b, _ := io.ReadAll(w.Body)
	return w.Code, b
}

func keyClass(k string) string {
	switch {
	case k == "":
		return "empty"
	case len(k)%36 == 0:
		return "len36n"
	case len(k) > 191:
		return "long"
	}
	return "other"
}

func errClass(err error) string {
	s := err.Error()
	for _, e := range []string{"not a directory", "is a directory", "file name too long", "empty path", "no such file", "file exists", "invalid argument", "cipher", "too short"} {
		if strings.Contains(s, e) {
			return strings.ReplaceAll(e, " ", "-")
		}
	}
	return "other"
}

func c14Run(r *run.Runner, c c14Case, idx int) {
	dir := ""
	backend := strings.TrimPrefix(strings.TrimSuffix(c.Config, "-reopen"), "expapi-")
	if backend != "mem" {
		dir = ScratchDir()
		defer os.RemoveAll(dir)
	}
	conn, err := Backend(backend, dir)
	if err != nil {
		r.Inconclusive("open: " + err.Error())
		return
	}
	var api *apiConn
	if strings.HasPrefix(c.Config, "expapi-") {
		mux := http.NewServeMux()
		expapi.Register(expapi.WithServeMux(mux))
		dsn := "fscache://" + dir + "?appname=c"
		if backend == "fsaes" {
			dsn += "&encrypt=on&encrypt_key=" + url.QueryEscape(TestKeyB64)
		}
		api = &apiConn{mux: mux, dsn: url.QueryEscape(dsn)}
	}
	model := map[string][]byte{}
	seq := 0
	viol := func(clause, sig, msg string, opi int) {
		k, o := c.keys[c.Ops[opi].Key], c.Ops[opi]
		if len(k) > 120 {
			k = k[:120] + "..."
		}
		if len(o.Prefix) > 60 {
			o.Prefix = o.Prefix[:60] + "..."
		}
		if len(msg) > 600 {
			msg = msg[:300] + " ... " + msg[len(msg)-200:]
		}
		r.Violation(clause, sig, fmt.Sprintf("%s (config %s, op #%d %+v, key %q len %d)", msg, c.Config, opi, o, k, len(c.keys[c.Ops[opi].Key])), nil)
	}
	// HTTP path semantics (dot segments, empty segments at the edges) make a
	// few keys unaddressable through /debug/httpcache/{key}: not judged there
	apiAddressable := func(k string) bool {
		return k != "" && k != "." && k != ".." && !strings.HasPrefix(k, "/") && !strings.HasSuffix(k, "/") &&
			!strings.HasSuffix(k, "/.") && !strings.HasSuffix(k, "/..")
	}
	for opi, op := range c.Ops {
		k := c.keys[op.Key]
		r.AddEvaluations(1)
		useAPI := api != nil && apiAddressable(k) && opi%2 == 1
		switch op.Op {
		case "reopen":
			if strings.HasSuffix(c.Config, "-reopen") {
				nc, err := Backend(backend, dir)
				if err != nil {
					r.Inconclusive("reopen: " + err.Error())
					return
				}
				conn = nc
				r.Count("reopens", 1)
			}
		case "set", "mutate-after-set":
			seq++
			v := MakeValue(fmt.Sprintf("c%d.%d", idx, seq), op.Size, false)
			if op.Size == 0 && seq%2 == 0 {
				v = []byte{} // a truly empty value
			}
			buf := append([]byte(nil), v...)
			if err := conn.Set(k, buf); err != nil {
				viol("set-error", "key="+keyClass(k)+",err="+errClass(err), "Set on a legal key failed: "+err.Error(), opi)
				continue
			}
			model[k] = v
			if op.Op == "mutate-after-set" {
				for i := range buf {
					buf[i] ^= 0xff
				}
				got, err := conn.Get(k)
				if err != nil || !bytes.Equal(got, v) {
					viol("not-isolated", "after-set", "stored value changed when the caller mutated the buffer it had passed to Set", opi)
				}
			}
		case "get", "mutate-got":
			var got []byte
			var gerr error
			if useAPI {
				code, body := api.do("GET", "/debug/httpcache/"+url.PathEscape(k)+"?dsn="+api.dsn)
				switch code {
				case 200:
					got = body
				case 404:
					gerr = driver.ErrNotExist
				default:
					gerr = fmt.Errorf("http %d: %s", code, body)
				}
				r.Count("api_ops", 1)
			} else {
				got, gerr = conn.Get(k)
			}
			want, live := model[k]
			switch {
			case live && gerr != nil:
				viol("get-error", "live-key,key="+keyClass(k)+",err="+errClass(gerr)+apiTag(useAPI), "Get of a live key failed: "+gerr.Error(), opi)
			case live && !bytes.Equal(got, want):
				id, intact := ParseValue(got)
				viol("wrong-bytes", fmt.Sprintf("intact=%v", intact)+apiTag(useAPI), fmt.Sprintf("Get returned %d bytes (value id %q, intact %v), expected the %d bytes of the latest Set", len(got), id, intact, len(want)), opi)
			case !live && gerr == nil:
				id, _ := ParseValue(got)
				viol("phantom-value", "absent-key"+apiTag(useAPI), fmt.Sprintf("Get of an absent key returned %d bytes (value id %q)", len(got), id), opi)
			case !live && !errors.Is(gerr, driver.ErrNotExist):
				viol("not-exist-error", "get,key="+keyClass(k)+",err="+errClass(gerr), "Get of an absent key did not report ErrNotExist: "+gerr.Error(), opi)
			}
			if op.Op == "mutate-got" && live && gerr == nil && len(got) > 0 && !useAPI {
				for i := range got {
					got[i] ^= 0xff
				}
				again, err := conn.Get(k)
				if err != nil || !bytes.Equal(again, want) {
					viol("not-isolated", "after-get", "stored value changed when the caller mutated a slice returned by Get", opi)
				}
			}
		case "delete":
			var derr error
			if useAPI {
				code, body := api.do("DELETE", "/debug/httpcache/"+url.PathEscape(k)+"?dsn="+api.dsn)
				switch code {
				case 204:
				case 404:
					derr = driver.ErrNotExist
				default:
					derr = fmt.Errorf("http %d: %s", code, body)
				}
				r.Count("api_ops", 1)
			} else {
				derr = conn.Delete(k)
			}
			_, live := model[k]
			switch {
			case live && derr != nil:
				viol("delete-error", "live-key,err="+errClass(derr)+apiTag(useAPI), "Delete of a live key failed: "+derr.Error(), opi)
			case !live && derr == nil:
				viol("delete-absent-ok", "absent-key"+apiTag(useAPI), "Delete of an absent key reported success", opi)
			case !live && !errors.Is(derr, driver.ErrNotExist):
				viol("not-exist-error", "delete,key="+keyClass(k)+",err="+errClass(derr), "Delete of an absent key did not report ErrNotExist: "+derr.Error(), opi)
			}
			delete(model, k)
		case "keys":
			var got []string
			var kerr error
			if api != nil && opi%2 == 1 {
				code, body := api.do("GET", "/debug/httpcache?prefix="+url.QueryEscape(op.Prefix)+"&dsn="+api.dsn)
				if code != 200 {
					kerr = fmt.Errorf("http %d: %s", code, body)
				} else {
					var out struct {
						Keys    []string `json:"keys"`
						KeysRaw []string `json:"keys_raw"` // keys that are not valid UTF-8, base64
					}
					if err := json.Unmarshal(body, &out); err != nil {
						kerr = err
					}
					// a key that is not valid UTF-8 appears mangled in "keys" and
					// byte-exactly in "keys_raw": drop one mangled twin per raw key
					mangled := map[string]int{}
					for _, b64 := range out.KeysRaw {
						raw, err := base64.StdEncoding.DecodeString(b64)
						if err != nil || utf8.Valid(raw) {
							kerr = fmt.Errorf("keys_raw entry %q: not base64 of a key that needs it", b64)
							break
						}
						got = append(got, string(raw))
						jb, _ := json.Marshal(string(raw))
						var twin string
						json.Unmarshal(jb, &twin)
						mangled[twin]++
					}
					for _, k := range out.Keys {
						if mangled[k] > 0 {
							mangled[k]--
							continue
						}
						got = append(got, k)
					}
					if got == nil {
						got = []string{}
					}
				}
				r.Count("api_ops", 1)
			} else if kl, ok := conn.(keyLister); ok {
				got, kerr = kl.Keys(op.Prefix)
			} else {
				continue
			}
			if kerr != nil {
				viol("keys-error", "err="+errClass(kerr), "listing failed: "+kerr.Error(), opi)
				continue
			}
			var want []string
			for mk := range model {
				if strings.HasPrefix(mk, op.Prefix) {
					want = append(want, mk)
				}
			}
			sort.Strings(want)
			sort.Strings(got)
			if strings.Join(got, "\x01") != strings.Join(want, "\x01") {
				viol("keys-mismatch", fmt.Sprintf("got=%d,want=%d", min(len(got), 3), min(len(want), 3)), fmt.Sprintf("listing with prefix %q returned %d keys, the model holds %d (got %q, want %q)", op.Prefix, len(got), len(want), trunc(got), trunc(want)), opi)
			}
			r.Count("listings", 1)
		}
	}
	r.Nontrivial(fmt.Sprintf("%s|%v|%v", c.Config, c.KeysB, c.Ops))
	r.Count("config:"+c.Config, 1)
	if r.WantSample() {
		r.Sample(map[string]any{"config": c.Config, "key_lengths": keyLens(c.keys), "ops": c.Ops[:min(12, len(c.Ops))], "n_ops": len(c.Ops)})
	}
}

func apiTag(b bool) string {
	if b {
		return ",via-api"
	}
	return ""
}

func trunc(a []string) []string {
	out := []string{}
	for _, s := range a {
		if len(s) > 24 {
			s = s[:24] + "…"
		}
		out = append(out, s)
		if len(out) >= 6 {
			break
		}
	}
	return out
}

func keyLens(ks []string) []int {
	var out []int
	for _, k := range ks {
		out = append(out, len(k))
	}
	return out
}

// ---- concurrent parts --------------------------------------------------------

type regIn struct {
	Op  string // set get delete
	Val string // value id for set
}
type regOut struct {
	Val     string // value id read ("" absent)
	Absent  bool
	Err     bool
	Garbage bool
	ErrText string
}

// strictRegister: Get must return the current value; ErrNotExist iff absent.
var strictRegister = porcupine.Model{
	Init: func() any { return "" },
	Step: func(state, in, out any) (bool, any) {
		i, o, s := in.(regIn), out.(regOut), state.(string)
		switch i.Op {
		case "set":
			return true, i.Val
		case "delete":
			if s == "" {
				return o.Absent, s
			}
			return !o.Absent && !o.Err, ""
		default:
			if o.Garbage || o.Err {
				return false, s
			}
			if o.Absent {
				return s == "", s
			}
			return o.Val == s, s
		}
	},
	DescribeOperation: func(in, out any) string { return fmt.Sprintf("%+v -> %+v", in, out) },
}

// TestC14ConcurrentMem: concurrent operations on few shared keys of the memory
// backend, checked against the strict map model with porcupine (per key).
func TestC14ConcurrentMem(t *testing.T) {
	r := run.Start(t, "C14", "concurrent-mem")
	defer r.Finish()
	n := r.Tiered(50, 2000)
	for i := 0; i < n; i++ {
		if !r.Mine(i) {
			continue
		}
		rng := r.Rand(i)
		nkeys := 1 + rng.IntN(3)
		nclients := 3 + rng.IntN(6)
		opsPer := 10 + rng.IntN(25)
		r.Begin(i, map[string]int{"keys": nkeys, "clients": nclients, "ops_per_client": opsPer})
		conn := memcache.Open()
		hist := concurrentHistory(conn, nkeys, nclients, opsPer, rng.Uint64(), fmt.Sprintf("m%d", i), true)
		bad := 0
		for k, ops := range hist {
			res, _ := porcupine.CheckOperationsVerbose(strictRegister, ops, 20*time.Second)
			r.AddEvaluations(len(ops))
			switch res {
			case porcupine.Illegal:
				bad++
				r.Violation("not-linearizable", "memcache", fmt.Sprintf("history of key %d (%d operations, %d clients) is not linearizable against the map model", k, len(ops), nclients), describeOps(ops, 30))
			case porcupine.Unknown:
				r.Inconclusive("porcupine timeout")
			}
		}
		if bad == 0 {
			r.Nontrivial(fmt.Sprintf("mem|%d|%d|%d|%d", i, nkeys, nclients, opsPer))
		}
		r.Count("histories", 1)
	}
	r.Done()
}

func describeOps(ops []porcupine.Operation, n int) []string {
	var out []string
	for i, o := range ops {
		if i >= n {
			break
		}
		out = append(out, fmt.Sprintf("client %d [%d,%d] %+v -> %+v", o.ClientId, o.Call, o.Return, o.Input, o.Output))
	}
	return out
}

// concurrentHistory runs clients against conn and returns per-key histories.
func concurrentHistory(conn driver.Conn, nkeys, nclients, opsPer int, seed uint64, tag string, withDelete bool) map[int][]porcupine.Operation {
	longKeys := strings.HasPrefix(tag, "long")
	t0 := time.Now()
	var mu sync.Mutex
	hist := map[int][]porcupine.Operation{}
	var wg sync.WaitGroup
	for c := 0; c < nclients; c++ {
		wg.Add(1)
		go func(c int) {
			defer wg.Done()
			rng := rand.New(rand.NewPCG(seed, uint64(c)))
			var local []struct {
				k  int
				op porcupine.Operation
			}
			for i := 0; i < opsPer; i++ {
				k := rng.IntN(nkeys)
				key := fmt.Sprintf("%s-key-%d", tag, k)
				if longKeys {
					// > 191 bytes: fragmented file names that share directories
					key = fmt.Sprintf("%s%s-key-%d%s", strings.Repeat("L", 150), tag, k, strings.Repeat("x", 60+k))
				}
				var in regIn
				var out regOut
				call := time.Since(t0).Nanoseconds()
				switch x := rng.IntN(10); {
				case x < 4:
					id := fmt.Sprintf("%s.%d.%d", tag, c, i)
					in = regIn{"set", id}
					size := []int{1, 50, 4000, 30000}[rng.IntN(4)]
					if err := conn.Set(key, MakeValue(id, size, false)); err != nil {
						out.Err = true
					}
				case x < 9 || !withDelete:
					in = regIn{Op: "get"}
					v, err := conn.Get(key)
					switch {
					case errors.Is(err, driver.ErrNotExist):
						out.Absent = true
					case err != nil:
						out.Err = true
						out.ErrText = err.Error()
					default:
						id, intact := ParseValue(v)
						out.Val = id
						out.Garbage = !intact
					}
				default:
					in = regIn{Op: "delete"}
					err := conn.Delete(key)
					switch {
					case errors.Is(err, driver.ErrNotExist):
						out.Absent = true
					case err != nil:
						out.Err = true
					}
				}
				ret := time.Since(t0).Nanoseconds()
				local = append(local, struct {
					k  int
					op porcupine.Operation
				}{k, porcupine.Operation{ClientId: c, Input: in, Call: call, Output: out, Return: ret}})
				if rng.IntN(4) == 0 {
					runtime.Gosched()
				}
			}
			mu.Lock()
			for _, l := range local {
				hist[l.k] = append(hist[l.k], l.op)
			}
			mu.Unlock()
		}(c)
	}
	wg.Wait()
	return hist
}

// TestC14ConcurrentFS: goroutines own disjoint key sets of one fs backend
// (cross-key interference through shared directories, MkdirAll, the walker);
// each key's sub-history is sequential and compared with a map directly.
// TestC14Timeout: "stored values are isolated from the caller's buffers" also
// when an operation times out. With a tiny operation timeout Set returns (with
// or without an error) while its write may still be under way; the caller then
// overwrites its buffer. Whatever ends up stored must be, in full, the value
// that was passed to Set - or nothing.
func TestC14Timeout(t *testing.T) {
	r := run.Start(t, "C14", "timeout-isolation")
	defer r.Finish()
	n := r.Tiered(12, 200)
	for i := 0; i < n; i++ {
		if !r.Mine(i) {
			continue
		}
		rng := r.Rand(i)
		size := pick(rng, []int{1 << 20, 4 << 20, 300000})
		enc := chance(rng, 0.3)
		r.Begin(i, map[string]any{"value_bytes": size, "encrypted": enc, "timeout": "1ns"})
		dir := ScratchDir()
		opts := []fscache.Option{fscache.WithBaseDir(dir), fscache.WithTimeout(time.Nanosecond)}
		if enc {
			opts = append(opts, fscache.WithEncryption(TestKeyB64))
		}
		conn, err := fscache.Open("c", opts...)
		if err != nil {
			r.Inconclusive(err.Error())
			os.RemoveAll(dir)
			continue
		}
		key := fmt.Sprintf("http://a.example/to#%d", i)
		buf := MakeValue(fmt.Sprintf("to%d", i), size, false)
		want := append([]byte(nil), buf...)
		serr := conn.Set(key, buf)
		for j := range buf {
			buf[j] = 'Z' // the caller's buffer is the caller's again
		}
		time.Sleep(300 * time.Millisecond) // an abandoned write finishes
		backend := "fs"
		if enc {
			backend = "fsaes"
		}
		rc, err := Backend(backend, dir)
		if err != nil {
			r.Inconclusive(err.Error())
			os.RemoveAll(dir)
			continue
		}
		got, gerr := rc.Get(key)
		r.AddEvaluations(1)
		switch {
		case errors.Is(gerr, driver.ErrNotExist):
			r.Count("nothing_stored", 1)
		case gerr != nil:
			r.Count("get_error", 1)
		case !bytes.Equal(got, want):
			id, intact := ParseValue(got)
			r.Violation("value-not-isolated", fmt.Sprintf("encrypted=%v,set-err=%v", enc, serr != nil), fmt.Sprintf("Set returned (%v) and the caller overwrote its buffer; the store then holds %d bytes that were never passed to Set (id %q, intact %v, starts %q)", serr, len(got), id, intact, string(got[:min(16, len(got))])), nil)
		default:
			r.Count("stored_exactly", 1)
		}
		r.Count(fmt.Sprintf("set_timed_out:%v", serr != nil), 1)
		r.Nontrivial(fmt.Sprintf("to|%d|%d|%v", i, size, enc))
		os.RemoveAll(dir)
	}
	r.Done()
}

func TestC14ConcurrentFS(t *testing.T) {
	r := run.Start(t, "C14", "concurrent-fs")
	defer r.Finish()
	n := r.Tiered(20, 400)
	for i := 0; i < n; i++ {
		if !r.Mine(i) {
			continue
		}
		rng := r.Rand(i)
		backend := pick(rng, []string{"fs", "fsaes"})
		ng := 4 + rng.IntN(12)
		r.Begin(i, map[string]any{"backend": backend, "goroutines": ng})
		dir := ScratchDir()
		conn, err := Backend(backend, dir)
		if err != nil {
			r.Inconclusive(err.Error())
			os.RemoveAll(dir)
			continue
		}
		// key families share long prefixes so that they share directories
		base := strings.Repeat("k", 36*4)
		var wg sync.WaitGroup
		var mu sync.Mutex
		var errs []string
		for g := 0; g < ng; g++ {
			wg.Add(1)
			go func(g int) {
				defer wg.Done()
				lr := rand.New(rand.NewPCG(uint64(i), uint64(g)))
				keys := []string{fmt.Sprintf("%s%02d", base, g), fmt.Sprintf("%s%02d%s", base, g, strings.Repeat("x", 200)), fmt.Sprintf("g%02d", g), fmt.Sprintf("%s%02d%s", base[:72], g, strings.Repeat("y", 300))}
				model := map[string][]byte{}
				for s := 0; s < 60; s++ {
					k := keys[lr.IntN(len(keys))]
					switch lr.IntN(4) {
					case 0, 1:
						v := MakeValue(fmt.Sprintf("f%d.%d.%d", i, g, s), lr.IntN(3000), false)
						if err := conn.Set(k, v); err != nil {
							mu.Lock()
							errs = append(errs, "Set failed: "+err.Error())
							mu.Unlock()
							continue
						}
						model[k] = v
					case 2:
						got, err := conn.Get(k)
						want, live := model[k]
						if live && (err != nil || !bytes.Equal(got, want)) || !live && !errors.Is(err, driver.ErrNotExist) {
							mu.Lock()
							errs = append(errs, fmt.Sprintf("Get(%q…) live=%v err=%v wrong=%v", k[:min(len(k), 20)], live, err, !bytes.Equal(got, want)))
							mu.Unlock()
						}
					default:
						err := conn.Delete(k)
						_, live := model[k]
						if live && err != nil || !live && !errors.Is(err, driver.ErrNotExist) {
							mu.Lock()
							errs = append(errs, fmt.Sprintf("Delete live=%v err=%v", live, err))
							mu.Unlock()
						}
						delete(model, k)
					}
					if lr.IntN(6) == 0 {
						if kl, ok := conn.(keyLister); ok {
							ks, err := kl.Keys(fmt.Sprintf("g%02d", g))
							if err != nil {
								// a listing may not fail because other keys are being written
								mu.Lock()
								errs = append(errs, fmt.Sprintf("Keys fails while other goroutines write their own keys: %.200s", err.Error()))
								mu.Unlock()
							} else {
								_, live := model[fmt.Sprintf("g%02d", g)]
								if live != (len(ks) == 1) {
									mu.Lock()
									errs = append(errs, fmt.Sprintf("Keys lists %v, own key live=%v", ks, live))
									mu.Unlock()
								}
							}
							// the long keys this goroutine owns, by their common prefix
							pre := fmt.Sprintf("%s%02d", base, g)
							if ks, err := kl.Keys(pre); err == nil {
								want := 0
								for k := range model {
									if strings.HasPrefix(k, pre) {
										want++
									}
								}
								if len(ks) != want {
									mu.Lock()
									errs = append(errs, fmt.Sprintf("Keys(own long prefix) lists %d keys, %d are live", len(ks), want))
									mu.Unlock()
								}
							}
						}
					}
				}
			}(g)
		}
		wg.Wait()
		r.AddEvaluations(ng * 60)
		for _, e := range errs {
			r.Violation("cross-key-interference", "backend="+backend, "with goroutines owning disjoint keys: "+e, nil)
		}
		if len(errs) == 0 {
			r.Nontrivial(fmt.Sprintf("fs|%d|%s|%d", i, backend, ng))
		}
		os.RemoveAll(dir)
		runtime.GC()
	}
	r.Done()
}
