package kv

import (
	"bytes"
	"fmt"
	"io"
	"net/http"
	"os"
	"strconv"
	"strings"
	"syscall"
	"testing"

	"github.com/bartventer/httpcache"

	"verif/harness/run"
)

// tokenOrigin answers every request with a cacheable body naming tok.
type tokenOrigin struct {
	tok  string
	size int
}

func tokenBody(tok string, size int) []byte {
	return MakeValue(tok, size, false)
}

func (o tokenOrigin) RoundTrip(req *http.Request) (*http.Response, error) {
	body := tokenBody(o.tok, o.size)
	return &http.Response{Status: "200 OK", StatusCode: 200, Proto: "HTTP/1.1", ProtoMajor: 1, ProtoMinor: 1,
		Header:        http.Header{"Cache-Control": {"max-age=100000"}, "Content-Length": {strconv.Itoa(len(body))}, "Date": {"Sat, 01 Jan 2000 00:00:00 GMT"}},
		Body:          io.NopCloser(bytes.NewReader(body)),
		ContentLength: int64(len(body)), Request: req}, nil
}

func transportDSN(dir, backend string) string {
	dsn := "fscache://" + dir + "?appname=c"
	if backend == "fsaes" {
		dsn += "&encrypt=on&encrypt_key=" + TestKeyB64
	}
	return dsn
}

// childTransport: a transport with an fscache DSN stores a response while the
// file-size limit cuts the entry write.
func childTransport(dir, backend string) {
	k, _ := strconv.Atoi(os.Getenv("VERIF_CHILD_CUT"))
	size, _ := strconv.Atoi(os.Getenv("VERIF_CHILD_SIZE"))
	rt := httpcache.NewTransport(transportDSN(dir, backend), httpcache.WithUpstream(tokenOrigin{"first", size}))
	lim := syscall.Rlimit{Cur: uint64(k), Max: uint64(k)}
	if err := syscall.Setrlimit(syscall.RLIMIT_FSIZE, &lim); err != nil {
		fmt.Println("CHILD rlimit-error", err)
		return
	}
	req, _ := http.NewRequest("GET", "http://a.example/t", nil)
	resp, err := rt.RoundTrip(req)
	if err != nil {
		fmt.Println("CHILD roundtrip-error", err)
		return
	}
	b, _ := io.ReadAll(resp.Body)
	id, intact := ParseValue(b)
	fmt.Println("CHILD done", id, intact)
}

// TestC15Transport: the cut applied while a transport stores a response; a new
// transport on that directory must never serve a truncated or spliced body.
func TestC15Transport(t *testing.T) {
	r := run.Start(t, "C15", "transport")
	defer r.Finish()
	n := r.Tiered(60, 1200)
	for i := 0; i < n; i++ {
		if !r.Mine(i) {
			continue
		}
		rng := r.Rand(i)
		backend := pick(rng, []string{"fs", "fs", "fsaes"})
		size := pick(rng, []int{10, 300, 5000, 70000})
		// the entry is metadata line + header block + body: cut anywhere in it, biased to the body
		cut := rng.IntN(size + 700)
		c := map[string]any{"backend": backend, "body_payload_bytes": size, "cut_at_byte": cut}
		r.Begin(i, c)
		dir := ScratchDir()
		out, _ := childCmd(map[string]string{"VERIF_CHILD_MODE": "transport", "VERIF_CHILD_DIR": dir, "VERIF_CHILD_BACKEND": backend,
			"VERIF_CHILD_SIZE": strconv.Itoa(size), "VERIF_CHILD_CUT": strconv.Itoa(cut)}).Output()
		if !strings.Contains(string(out), "CHILD done first true") {
			// the miss path must hand the origin's exact body to the client even when storing fails
			r.Violation("miss-body-damaged", "backend="+backend, "the response forwarded on a miss was damaged or failed while the store write was cut: "+firstLine(string(out)), nil)
		}
		files, temps, _ := diskState(dir)
		rt := httpcache.NewTransport(transportDSN(dir, backend), httpcache.WithUpstream(tokenOrigin{"second", size}))
		req, _ := http.NewRequest("GET", "http://a.example/t", nil)
		resp, err := rt.RoundTrip(req)
		verdict := ""
		if err != nil {
			verdict = "error"
			r.Violation("follow-up-error", "backend="+backend, "GET after a cut store write failed: "+err.Error(), nil)
		} else {
			b, rerr := io.ReadAll(resp.Body)
			id, intact := ParseValue(b)
			st := resp.Header.Get("X-Httpcache-Status")
			verdict = fmt.Sprintf("%s/%s", st, id)
			if rerr != nil || !intact || (id != "first" && id != "second") {
				r.Violation("truncated-response-served", fmt.Sprintf("backend=%s,status=%s", backend, st), fmt.Sprintf("after a store write cut at byte %d the transport served a damaged body (%d bytes, id %q, intact %v, read error %v, cache status %s)", cut, len(b), id, intact, rerr, st), nil)
			}
		}
		r.Count("follow_up:"+verdict, 1)
		r.SetAdd("disk_states", fmt.Sprintf("files=%d temps=%d", files, temps))
		r.Nontrivial(fmt.Sprintf("%v", c))
		if r.WantSample() {
			r.Sample(map[string]any{"case": c, "files": files, "temp_files": temps, "follow_up": verdict})
		}
		os.RemoveAll(dir)
	}
	r.Done()
}
