// Package kv holds the store-level workloads: model-based sequences (C14),
// linearizability / failed-write / crash checks (C15) and tamper enumeration
// (C17) against the built-in backends.
package kv

import (
	"crypto/sha256"
	"encoding/hex"
	"fmt"
	"math/rand/v2"
	"os"
	"strconv"
	"strings"

	"github.com/bartventer/httpcache/store/driver"
	"github.com/bartventer/httpcache/store/fscache"
	"github.com/bartventer/httpcache/store/memcache"
)

const TestKeyB64 = "MDEyMzQ1Njc4OWFiY2RlZjAxMjM0NTY3ODlhYmNkZWY="  // 32 bytes
const OtherKeyB64 = "ZmVkY2JhOTg3NjU0MzIxMGZlZGNiYTk4NzY1NDMyMTA=" // another 32 bytes

// MakeValue builds a self-describing value: "<id>|<payload len>|<hash>|payload".
// A Get result can so be classified as exactly one value ever written or as
// "not any value ever written", without reference to timing.
func MakeValue(id string, size int, marker bool) []byte {
	payload := make([]byte, size)
	seed := sha256.Sum256([]byte("val:" + id))
	x := uint64(seed[0]) | uint64(seed[1])<<8 | uint64(seed[2])<<16 | uint64(seed[3])<<24 | 1
	for i := range payload {
		x ^= x << 13
		x ^= x >> 7
		x ^= x << 17
		payload[i] = byte(x)
	}
	if marker {
		// a distinct ASCII marker every 32 bytes (C17 plaintext scan)
		for i := 0; i+16 <= len(payload); i += 32 {
			copy(payload[i:], fmt.Sprintf("<M:%s:%06d>", shortID(id), i))
		}
	}
	sum := sha256.Sum256(payload)
	h := fmt.Sprintf("%s|%d|%s|", id, size, hex.EncodeToString(sum[:6]))
	return append([]byte(h), payload...)
}

func shortID(id string) string {
	if len(id) > 5 {
		return id[:5]
	}
	return id
}

// ParseValue returns the id named by v and whether v is intact.
func ParseValue(v []byte) (id string, intact bool) {
	parts := strings.SplitN(string(v[:min(len(v), 120)]), "|", 4)
	if len(parts) < 4 {
		return "", false
	}
	n, err := strconv.Atoi(parts[1])
	if err != nil {
		return parts[0], false
	}
	hdr := len(parts[0]) + len(parts[1]) + len(parts[2]) + 3
	if len(v) != hdr+n {
		return parts[0], false
	}
	sum := sha256.Sum256(v[hdr:])
	return parts[0], hex.EncodeToString(sum[:6]) == parts[2]
}

// Backend opens a named backend in dir ("" for memory).
func Backend(name, dir string) (driver.Conn, error) {
	switch name {
	case "mem":
		return memcache.Open(), nil
	case "fs":
		return fscache.Open("c", fscache.WithBaseDir(dir))
	case "fsaes":
		return fscache.Open("c", fscache.WithBaseDir(dir), fscache.WithEncryption(TestKeyB64))
	case "fsmt": // update_mtime: a Get also touches the file it read
		return fscache.Open("c", fscache.WithBaseDir(dir), fscache.WithUpdateMTime(true))
	}
	return nil, fmt.Errorf("unknown backend %q", name)
}

func ScratchDir() string {
	base := os.Getenv("VERIF_SCRATCH")
	if base == "" {
		base = os.TempDir()
	}
	d, err := os.MkdirTemp(base, "kv-")
	if err != nil {
		panic(err)
	}
	return d
}

func pick[T any](r *rand.Rand, xs []T) T  { return xs[r.IntN(len(xs))] }
func chance(r *rand.Rand, p float64) bool { return r.Float64() < p }

// KeyPool builds an adversarial key set around the file-name mapping.
func KeyPool(r *rand.Rand, n int) []string {
	lengths := []int{0, 1, 2, 35, 36, 37, 47, 48, 49, 71, 72, 73, 108, 190, 191, 192, 193, 215, 216, 217, 252, 253, 254, 255, 256, 257, 258, 400, 1000}
	var keys []string
	seen := map[string]bool{}
	add := func(k string) {
		if !seen[k] {
			seen[k] = true
			keys = append(keys, k)
		}
	}
	mk := func(n int, class int) string {
		b := make([]byte, n)
		for i := range b {
			switch class {
			case 0: // URL-shaped
				const a = "http://a.example/path?q=1#0123456789abcdefghijklmnopqrstuvwxyz"
				b[i] = a[(i+class)%len(a)]
			case 1: // arbitrary bytes
				b[i] = byte(r.IntN(256))
			case 2: // separators and dots
				b[i] = "/.#\x00\\ "[r.IntN(6)]
			default:
				b[i] = byte('a' + r.IntN(26))
			}
		}
		return string(b)
	}
	for len(keys) < n {
		switch r.IntN(10) {
		case 0, 1, 2:
			add(mk(pick(r, lengths), r.IntN(4)))
		case 3, 4, 5:
			// prefix families: a base of 36*m bytes and extensions of it
			base := mk(36*(1+r.IntN(7)), 3)
			add(base)
			add(base + mk(1+r.IntN(5), 3))
			add(base + mk(300, 3))
			add(base[:len(base)-1])
			if len(keys) > 0 {
				add(base + mk(36*(1+r.IntN(6)), 3))
			}
		case 6:
			add(pick(r, []string{".", "..", "/", "#", "\x00", "a/b", "../x", "_", "-", "Xw", "http://a.example/#0", "http://a.example/", "http://a.example/#18446744073709551615",
				"http://a.example/s?q=a%20b#0", "http://a.example/s?q=a b#0", "%41", "A", "a%2Fb", "a/b", "%25", "%", "%2541", "caf\xe9", "caf\xc3\xa9", "caf%E9", "q=\xef\xbf\xbd", "q=\xff"}))
		case 7:
			if len(keys) > 0 {
				k := pick(r, keys)
				add(k + k)
				add(k + "#" + strconv.Itoa(r.IntN(3)))
			}
		default:
			add(mk(1+r.IntN(60), r.IntN(4)))
		}
	}
	return keys[:n]
}

var ValueSizes = []int{0, 1, 2, 15, 16, 17, 100, 4095, 4096, 4097, 65536, 1 << 20}
