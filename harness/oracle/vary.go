package oracle

import (
	"net/http"
	"sort"
	"strings"
)

// VaryFields returns the canonical field names nominated by all Vary field
// lines, and whether "*" is a member.
func VaryFields(values []string) (fields []string, star bool) {
	seen := map[string]bool{}
	for _, v := range values {
		for _, m := range strings.Split(v, ",") {
			m = strings.TrimSpace(m)
			if m == "" {
				continue
			}
			if m == "*" {
				star = true
				continue
			}
			c := http.CanonicalHeaderKey(m)
			if !seen[c] {
				seen[c] = true
				fields = append(fields, c)
			}
		}
	}
	sort.Strings(fields)
	return
}

// aggressiveNorm maps a header value to a form under which every
// meaning-preserving respelling (and then some) collapses: lower-case, all
// white space removed, list members sorted, q=1 dropped, x-gzip -> gzip.
func aggressiveNorm(values []string) string {
	joined := strings.Join(values, ",")
	var members []string
	cur := strings.Builder{}
	inQ := false
	flush := func() {
		m := cur.String()
		cur.Reset()
		m = asciiLower(m) // (ASCII only: bytes that are not UTF-8, and letters like U+212A, stay what they are)
		m = strings.Map(func(r rune) rune {
			if r == ' ' || r == '\t' {
				return -1
			}
			return r
		}, m)
		m = strings.TrimSuffix(m, ";q=1")
		m = strings.TrimSuffix(m, ";q=1.0")
		m = strings.TrimSuffix(m, ";q=1.00")
		m = strings.TrimSuffix(m, ";q=1.000")
		// malformed q parameters (q=abc, q=2, q=, q) carry no agreed meaning: dropped
		if i := strings.Index(m, ";q"); i >= 0 {
			rest := m[i+2:]
			end := strings.IndexByte(rest, ';')
			if end < 0 {
				end = len(rest)
			}
			qv := strings.TrimPrefix(rest[:end], "=")
			if !validQValue(qv) || !strings.HasPrefix(rest, "=") {
				m = m[:i] + rest[end:]
			}
		}
		for _, z := range []string{";q=0", ";q=0.0", ";q=0.00", ";q=0.000"} {
			if strings.HasSuffix(m, z) {
				m = "" // "not acceptable": the cache drops such members; debatable, so no verdict
			}
		}
		if m == "x-gzip" {
			m = "gzip"
		}
		if m == "x-compress" {
			m = "compress"
		}
		// members without any name character (";", "=", "q=" ...) are
		// malformed: whether they mean anything is debatable - no verdict
		if !strings.ContainsAny(strings.SplitN(m, ";", 2)[0], "abcdefghijklmnopqrstuvwxyz0123456789*") {
			m = ""
		}
		if m != "" {
			members = append(members, m)
		}
	}
	for i := 0; i < len(joined); i++ {
		c := joined[i]
		switch {
		case c == '"':
			inQ = !inQ
			cur.WriteByte(c)
		case c == ',' && !inQ:
			flush()
		default:
			cur.WriteByte(c)
		}
	}
	flush()
	sort.Strings(members)
	return strings.Join(members, ",")
}

// SurelyDifferent reports whether two requests differ on field under every
// reasonable equivalence (absent/empty only matches absent/empty).
func SurelyDifferent(field string, a, b http.Header) bool {
	av := a.Values(field)
	bv := b.Values(field)
	na, nb := aggressiveNorm(av), aggressiveNorm(bv)
	return na != nb
}

// VariantMismatch returns the nominated fields on which a and b surely differ.
func VariantMismatch(vary []string, a, b http.Header) (fields []string, star bool) {
	fs, star := VaryFields(vary)
	for _, f := range fs {
		if SurelyDifferent(f, a, b) {
			fields = append(fields, f)
		}
	}
	return fields, star
}

func validQValue(s string) bool {
	if s == "" {
		return false
	}
	if s[0] != '0' && s[0] != '1' {
		return false
	}
	if len(s) == 1 {
		return true
	}
	if s[1] != '.' || len(s) > 5 {
		return false
	}
	for _, c := range s[2:] {
		if c < '0' || c > '9' || (s[0] == '1' && c != '0') {
			return false
		}
	}
	return true
}
