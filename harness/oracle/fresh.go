package oracle

import (
	"net/http"
	"strings"
	"time"
)

// Stored is the stored response as the oracle sees it at the moment of reuse.
type Stored struct {
	Status int
	Header http.Header // effective header block (what the store holds for it)

	// records of message m_h, the message that last replaced the header block
	ReqTime, RespTime time.Time
	SentHeader        http.Header // header fields the origin sent in m_h
	Is304             bool
	// largest Age any earlier message for this resource carried (only used
	// when m_h is a 304 without Age: the stored Age may legitimately survive)
	PriorAgeAny bool
}

// Bounds is a closed interval of durations.
type Bounds struct {
	Low, High time.Duration
	Note      string
}

func parseDate(vs []string) (time.Time, bool) {
	if len(vs) != 1 {
		return time.Time{}, false
	}
	t, err := http.ParseTime(vs[0])
	if err != nil {
		return time.Time{}, false
	}
	return t, true
}

// DateBounds returns the interval for date_value.
func DateBounds(s Stored) (lo, hi time.Time, note string) {
	sent, sentOK := parseDate(s.SentHeader.Values("Date"))
	vis, visOK := parseDate(s.Header.Values("Date"))
	stampLo, stampHi := s.RespTime.Truncate(time.Second), s.RespTime
	switch {
	case sentOK && visOK && sent.Equal(vis):
		return vis, vis, "date:origin"
	case sentOK && !visOK:
		return sent, sent, "date:origin(not visible)"
	case !sentOK && visOK && !vis.Before(stampLo) && !vis.After(stampHi):
		return vis, vis, "date:stamped"
	case !sentOK && !visOK:
		return stampLo, stampHi, "date:stamped(not visible)"
	default:
		// visible Date is neither what m_h sent nor a receipt stamp
		if sentOK {
			lo, hi = sent, sent
		} else {
			lo, hi = stampLo, stampHi
		}
		if visOK {
			if vis.Before(lo) {
				lo = vis
			}
			if vis.After(hi) {
				hi = vis
			}
		}
		return lo, hi, "date:ambiguous"
	}
}

// AgeValueBounds is the interval for age_value of m_h.
func AgeValueBounds(s Stored) Bounds {
	vs := s.SentHeader.Values("Age")
	if len(vs) == 0 {
		// (a 304 without Age: the freshened response's age restarts with the
		// 304's own request and response times - an Age that arrived with an
		// earlier message belongs to the old times)
		return Bounds{0, 0, "age:none"}
	}
	b := Bounds{Low: Forever, High: 0, Note: "age:origin"}
	for _, v := range vs {
		// of a list-based value the first member counts (RFC 9111 §5.1)
		if first, _, list := strings.Cut(v, ","); list {
			v = strings.TrimSpace(first)
		}
		d, ok := ParseDeltaSeconds(v)
		if !ok {
			return Bounds{0, Forever, "age:invalid"}
		}
		b.Low = min(b.Low, d)
		b.High = max(b.High, d)
	}
	return b
}

func subTime(a, b time.Time) time.Duration {
	// time.Time.Sub already saturates
	return a.Sub(b)
}

// CurrentAge returns the interval for current_age at instant t (§4.2.3).
func CurrentAge(s Stored, t time.Time) Bounds {
	dlo, dhi, dnote := DateBounds(s)
	av := AgeValueBounds(s)
	delay := max(subTime(s.RespTime, s.ReqTime), 0)
	resident := max(subTime(t, s.RespTime), 0)
	one := func(date time.Time, ageValue time.Duration) time.Duration {
		apparent := max(subTime(s.RespTime, date), 0)
		corrected := SatAdd(ageValue, delay)
		return SatAdd(max(apparent, corrected), resident)
	}
	return Bounds{Low: one(dhi, av.Low), High: one(dlo, av.High), Note: dnote + "," + av.Note}
}

var heuristicStatuses = map[int]bool{
	200: true, 203: true, 204: true, 206: true, 300: true, 301: true, 308: true,
	404: true, 405: true, 410: true, 414: true, 501: true,
	304: true, // the repository lists it; harmless in the union
}

// RepoHeuristicStatuses are the statuses the repository documents as
// heuristically cacheable and that can be stored at all.
var RepoHeuristicStatuses = []int{200, 203, 301, 308, 404, 405, 410, 414, 501}

// Lifetime returns the interval for the freshness lifetime (§4.2.1, §4.2.2).
// High is the largest lifetime any legitimate private cache may assume, Low
// the smallest one this cache documents (used for "must be served").
func Lifetime(s Stored) Bounds {
	cc := ParseCC(s.Header.Values("Cache-Control"))
	ma := cc.Delta("max-age")
	if ma.Present && ma.Valid {
		if ma.Repeated {
			// several differing values: the first one, or stale (§4.2.1)
			return Bounds{0, ma.Value, "max-age-repeated"}
		}
		return Bounds{ma.Value, ma.Value, "max-age"}
	}
	if ma.Present {
		// a max-age that cannot be read is invalid freshness information:
		// the response is stale, and Expires stays ignored (§4.2.1)
		return Bounds{0, 0, "max-age-invalid"}
	}
	return lifetimeNoMaxAge(s, cc)
}

func lifetimeNoMaxAge(s Stored, cc CC) Bounds {
	dlo, dhi, _ := DateBounds(s)
	if evs := s.Header.Values("Expires"); len(evs) > 0 {
		if len(evs) == 1 {
			if e, err := http.ParseTime(evs[0]); err == nil {
				return Bounds{max(subTime(e, dhi), 0), max(subTime(e, dlo), 0), "expires"}
			}
			return Bounds{0, 0, "expires-invalid"}
		}
		var hi time.Duration
		for _, v := range evs {
			if e, err := http.ParseTime(v); err == nil {
				hi = max(hi, subTime(e, dlo))
			}
		}
		return Bounds{0, hi, "expires-multi"}
	}
	if !(heuristicStatuses[s.Status] || cc.Has("public")) {
		return Bounds{0, 0, "none"}
	}
	lm, ok := parseDate(s.Header.Values("Last-Modified"))
	if !ok || !lm.Before(dhi) {
		return Bounds{0, 0, "none(no usable last-modified)"}
	}
	tenLo := time.Duration(float64(subTime(dlo, lm)) * 0.1)
	tenHi := time.Duration(float64(subTime(dhi, lm)) * 0.1)
	if tenHi < tenLo {
		tenLo, tenHi = tenHi, tenLo
	}
	// "at most 10 %": whole seconds, never rounded up; less is always allowed
	return Bounds{max(tenLo.Truncate(time.Second)-time.Second, 0), tenHi, "heuristic"}
}
