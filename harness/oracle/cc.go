// Package oracle holds the small reference models the monitors use: a strict
// RFC 9111 §5.2 Cache-Control reader, the §4.2 age / lifetime arithmetic with
// saturation, an RFC 3986 equivalence classifier and a Vary classifier.
package oracle

import (
	"math"
	"net/http"
	"strings"
	"time"
)

const Forever = time.Duration(math.MaxInt64)

// Directive is one Cache-Control list member.
type Directive struct {
	Name   string // lower-cased
	Arg    string // unquoted argument
	HasArg bool
	Quoted bool
}

// CC is a parsed Cache-Control field (all field lines combined).
type CC struct {
	List []Directive
}

func isOWS(c byte) bool { return c == ' ' || c == '\t' }

// ParseCC reads all Cache-Control field lines per RFC 9110 §5.6.1 list syntax:
// lines are combined with ",", members are split on commas outside
// quoted-strings, empty members are ignored, names are case-insensitive,
// arguments are tokens or quoted-strings.
func ParseCC(values []string) CC {
	var cc CC
	s := strings.Join(values, ",")
	i := 0
	for i < len(s) {
		// one member
		start := i
		inQ := false
		for i < len(s) {
			c := s[i]
			if inQ {
				if c == '\\' && i+1 < len(s) {
					i += 2
					continue
				}
				if c == '"' {
					inQ = false
				}
			} else if c == '"' {
				inQ = true
			} else if c == ',' {
				break
			}
			i++
		}
		member := strings.TrimFunc(s[start:i], func(r rune) bool { return r == ' ' || r == '\t' })
		i++ // skip comma
		if member == "" {
			continue
		}
		name, arg, has := strings.Cut(member, "=")
		name = strings.ToLower(strings.TrimRight(name, " \t"))
		d := Directive{Name: name, HasArg: has}
		if has {
			arg = strings.TrimLeft(arg, " \t")
			if len(arg) >= 2 && arg[0] == '"' && arg[len(arg)-1] == '"' {
				d.Quoted = true
				var b strings.Builder
				in := arg[1 : len(arg)-1]
				for j := 0; j < len(in); j++ {
					if in[j] == '\\' && j+1 < len(in) {
						j++
					}
					b.WriteByte(in[j])
				}
				arg = b.String()
			}
			d.Arg = arg
		}
		cc.List = append(cc.List, d)
	}
	return cc
}

func (c CC) All(name string) []Directive {
	var out []Directive
	for _, d := range c.List {
		if d.Name == name {
			out = append(out, d)
		}
	}
	return out
}

func (c CC) Has(name string) bool { return len(c.All(name)) > 0 }

// Delta is the result of reading a delta-seconds directive.
type Delta struct {
	Present  bool
	Valid    bool          // the first occurrence has a 1*DIGIT argument
	Value    time.Duration // saturated; only meaningful if Valid
	Raw      string
	Repeated bool // several occurrences with differing arguments: the first counts, or the response is stale (RFC 9111 §4.2.1)
}

// ParseDeltaSeconds reads 1*DIGIT with saturation (RFC 9111 §1.2.2).
func ParseDeltaSeconds(s string) (time.Duration, bool) {
	if s == "" {
		return 0, false
	}
	for i := 0; i < len(s); i++ {
		if s[i] < '0' || s[i] > '9' {
			return 0, false
		}
	}
	s = strings.TrimLeft(s, "0")
	if len(s) > 10 { // > 9 999 999 999 s  (≈ 317 y) overflows Duration
		return Forever, true
	}
	var v int64
	for i := 0; i < len(s); i++ {
		v = v*10 + int64(s[i]-'0')
	}
	if v > int64(Forever/time.Second) {
		return Forever, true
	}
	return time.Duration(v) * time.Second, true
}

func (c CC) Delta(name string) Delta {
	all := c.All(name)
	if len(all) == 0 {
		return Delta{}
	}
	d := Delta{Present: true, Raw: all[0].Arg}
	if len(all) > 1 {
		// duplicates: either "first" or "stale/invalid" are legitimate (RFC 9111 §4.2.1)
		same := true
		for _, x := range all[1:] {
			if x.Arg != all[0].Arg || x.HasArg != all[0].HasArg {
				same = false
			}
		}
		if !same {
			d.Repeated = true
		}
	}
	if !all[0].HasArg {
		return d
	}
	v, ok := ParseDeltaSeconds(all[0].Arg)
	if !ok {
		return d
	}
	d.Valid, d.Value = true, v
	return d
}

// NoCache describes the no-cache response directive.
type NoCache struct {
	Present     bool
	Unqualified bool     // at least one occurrence without a field list
	Fields      []string // canonical field names of qualified occurrences
}

func (c CC) NoCacheResp() (n NoCache) {
	// both forms in one field: the unqualified one covers the whole response
	// and the field lists add up (RFC 9111 §5.2.2.4)
	for _, d := range c.All("no-cache") {
		n.Present = true
		if !d.HasArg || strings.TrimSpace(d.Arg) == "" {
			n.Unqualified = true
			continue
		}
		for _, f := range strings.Split(d.Arg, ",") {
			f = strings.TrimSpace(f)
			if f != "" {
				n.Fields = append(n.Fields, http.CanonicalHeaderKey(f))
			}
		}
	}
	return n
}

func SatAdd(a, b time.Duration) time.Duration {
	if a > 0 && b > 0 && a > Forever-b {
		return Forever
	}
	if a < 0 && b < 0 && a < -Forever-b {
		return -Forever
	}
	return a + b
}

// SatSub returns a-b with saturation.
func SatSub(a, b time.Duration) time.Duration {
	if b == -Forever-1 {
		return Forever
	}
	return SatAdd(a, -b)
}
