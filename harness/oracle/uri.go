package oracle

import (
	"net/url"
	"strings"
)

// Class is the verdict of the URI classifier.
type Class int

const (
	Equivalent Class = iota
	Distinct
	Unknown
)

func (c Class) String() string { return [...]string{"equivalent", "distinct", "unknown"}[c] }

func asciiLower(s string) string {
	b := []byte(s)
	for i, c := range b {
		if 'A' <= c && c <= 'Z' {
			b[i] = c + 'a' - 'A'
		}
	}
	return string(b)
}

func isUnreservedASCII(b byte) bool {
	return b >= 'a' && b <= 'z' || b >= 'A' && b <= 'Z' || b >= '0' && b <= '9' || b == '-' || b == '.' || b == '_' || b == '~'
}

func ishex(c byte) bool {
	return '0' <= c && c <= '9' || 'a' <= c && c <= 'f' || 'A' <= c && c <= 'F'
}

func unhex(c byte) byte {
	switch {
	case '0' <= c && c <= '9':
		return c - '0'
	case 'a' <= c && c <= 'f':
		return c - 'a' + 10
	default:
		return c - 'A' + 10
	}
}

const upperhex = "0123456789ABCDEF"

// normPct: upper-case escapes, decode escapes of ASCII unreserved characters
// (RFC 3986 §6.2.2.1-2). If encodeRaw, raw non-ASCII bytes are percent-encoded.
// If decodeDots, %2E is decoded too (unknown-class comparison only).
func normPct(s string, encodeRaw bool) string {
	var b strings.Builder
	for i := 0; i < len(s); i++ {
		c := s[i]
		if c == '%' && i+2 < len(s) && ishex(s[i+1]) && ishex(s[i+2]) {
			v := unhex(s[i+1])<<4 | unhex(s[i+2])
			if isUnreservedASCII(v) {
				b.WriteByte(v)
			} else {
				b.WriteByte('%')
				b.WriteByte(upperhex[v>>4])
				b.WriteByte(upperhex[v&15])
			}
			i += 2
			continue
		}
		if c >= 0x80 && encodeRaw {
			b.WriteByte('%')
			b.WriteByte(upperhex[c>>4])
			b.WriteByte(upperhex[c&15])
			continue
		}
		b.WriteByte(c)
	}
	return b.String()
}

// removeDotSegments implements RFC 3986 §5.2.4 on an escaped path.
func removeDotSegments(p string) string {
	if p == "" {
		return p
	}
	var out []string
	segs := strings.Split(p, "/")
	for i, s := range segs {
		switch s {
		case ".":
			if i == len(segs)-1 {
				out = append(out, "")
			}
		case "..":
			if len(out) > 1 {
				out = out[:len(out)-1]
			}
			if i == len(segs)-1 {
				out = append(out, "")
			}
		default:
			out = append(out, s)
		}
	}
	r := strings.Join(out, "/")
	if strings.HasPrefix(p, "/") && !strings.HasPrefix(r, "/") {
		r = "/" + r
	}
	return r
}

// URIKey is the normalised form used for comparison.
type URIKey struct {
	Strict       string // §6.2.2 + §6.2.3 normal form, raw non-ASCII percent-encoded
	Loose        string // additionally: features whose equivalence is debatable are erased
	RawNonASCII  bool
	MalformedPct bool // the query has a '%' that does not start an escape
	RawQuery     string
}

func wireTarget(u *url.URL) (path, query string, hasQ bool) {
	if u.Opaque != "" {
		// request-target is the opaque part for http URLs built by hand
		return u.Opaque, u.RawQuery, u.RawQuery != "" || u.ForceQuery
	}
	return u.EscapedPath(), u.RawQuery, u.RawQuery != "" || u.ForceQuery
}

// KeyOf computes the comparison keys of a URL as the client built it.
func KeyOf(u *url.URL) URIKey {
	scheme := strings.ToLower(u.Scheme)
	host := asciiLower(u.Hostname()) // ASCII only: U+0130 "İ" is not "i"
	port := u.Port()
	if i := strings.LastIndexByte(u.Host, ':'); port == "" && i >= 0 && !strings.HasSuffix(u.Host, "]") && strings.Count(u.Host, ":") == 1 {
		// "host:" (empty port)
		port = ""
	}
	loosePort := strings.TrimLeft(port, "0")
	def := map[string]string{"http": "80", "https": "443"}[scheme]
	if port == def {
		port = ""
	}
	if loosePort == def {
		loosePort = ""
	}
	path, query, hasQ := wireTarget(u)
	raw := false
	for i := 0; i < len(path); i++ {
		if path[i] >= 0x80 {
			raw = true
		}
	}
	for i := 0; i < len(query); i++ {
		if query[i] >= 0x80 {
			raw = true
		}
	}
	np := removeDotSegments(normPct(path, true))
	if np == "" {
		np = "/"
	}
	nq := normPct(query, true)
	k := URIKey{RawNonASCII: raw, RawQuery: query}
	for i := 0; i < len(query); i++ {
		if query[i] == '%' && !(i+2 < len(query) && ishex(query[i+1]) && ishex(query[i+2])) {
			k.MalformedPct = true
		}
	}
	// host as an IPv6 literal keeps its brackets in the key so that
	// "[::1]:8080" and "[::1:8080]" differ
	hostKey := host
	if strings.Contains(host, ":") {
		hostKey = "[" + host + "]"
	}
	k.Strict = scheme + "://" + hostKey + ":" + port + np
	if hasQ {
		k.Strict += "?" + nq
	}
	// loose: erase debatable features
	lp := strings.ReplaceAll(strings.ReplaceAll(np, "%2E", "."), "%2e", ".")
	lp = removeDotSegments(lp)
	if lp == "" {
		lp = "/"
	}
	lhost := strings.TrimSuffix(hostKey, ".")
	k.Loose = scheme + "://" + lhost + ":" + loosePort + lp
	if hasQ {
		// (an empty query - a bare "?" - is part of the request target and
		// RFC 3986 §6.2.3 does not equate it with "no query")
		k.Loose += "?" + nq
	}
	return k
}

// CompareURI classifies a pair of URLs.
func CompareURI(a, b *url.URL) Class {
	if (a.Opaque != "") != (b.Opaque != "") {
		// an opaque request-target against a hierarchical one: no verdict
		return Unknown
	}
	if a.Opaque != "" {
		// net/http connects to URL.Host and sends Opaque?RawQuery as the request target
		sameHost := asciiLower(a.Host) == asciiLower(b.Host)
		if strings.EqualFold(a.Scheme, b.Scheme) && a.Opaque == b.Opaque && a.RawQuery == b.RawQuery && sameHost {
			return Equivalent
		}
		if a.Opaque == b.Opaque && (!strings.EqualFold(a.Scheme, b.Scheme) || !sameHost || a.RawQuery != b.RawQuery) {
			return Distinct
		}
		return Unknown
	}
	ka, kb := KeyOf(a), KeyOf(b)
	if ka.Strict == kb.Strict {
		if (ka.MalformedPct || kb.MalformedPct) && ka.RawQuery != kb.RawQuery {
			// a stray '%' next to a real escape ("%%34" vs "%4"): RFC 3986 gives no reading
			return Unknown
		}
		if ka.RawNonASCII != kb.RawNonASCII {
			// raw non-ASCII vs its percent-encoded bytes
			return Unknown
		}
		if a.User.String() != b.User.String() {
			return Unknown
		}
		return Equivalent
	}
	if ka.Loose == kb.Loose {
		return Unknown
	}
	return Distinct
}

// SameOrigin: scheme, host (case-insensitive), effective port.
func SameOrigin(a, b *url.URL) bool {
	def := func(u *url.URL) string {
		p := u.Port()
		if p == "" {
			p = map[string]string{"http": "80", "https": "443"}[strings.ToLower(u.Scheme)]
		}
		return p
	}
	return strings.EqualFold(a.Scheme, b.Scheme) && asciiLower(a.Hostname()) == asciiLower(b.Hostname()) && def(a) == def(b)
}
