package main

var props = []prop{
	{ID: "C01", Level: "exploration",
		Rule: "grid part: one case = (stored response of the lifetime-source grid, elapsed time from the boundary pool, request directive variant); non-trivial = the lookup was answered from the store without foreground origin contact (the monitor's antecedent), distinct by (grid point, request variant, permission class). fuzz part: one case = one random history; non-trivial = at least one exchange of it was answered from the store without origin contact.",
		Assumptions: []string{"virtual time of testing/synctest equals the time the transport reads via time.Now", "reference age/lifetime arithmetic in harness/oracle (self-tested)"},
		Parts: []part{
			{Name: "grid", Pkg: "rfc", Test: "TestC01Grid", Batches: [2]int{8, 16}},
			{Name: "fuzz", Pkg: "rfc", Test: "TestFuzzC01", Race: true, Batches: [2]int{8, 16}, DeathIsViolation: false},
		}},
	{ID: "C02", Level: "exploration", Rule: "fuzz", Parts: []part{{Name: "fuzz", Pkg: "rfc", Test: "TestFuzzC02", Race: true, Batches: [2]int{8, 16}}}},
	{ID: "C10", Level: "fault_enumeration", Rule: "fuzz", Parts: []part{{Name: "fuzz", Pkg: "rfc", Test: "TestFuzzC10", Race: true, Batches: [2]int{8, 16}, DeathIsViolation: true}}},
	{ID: "C11", Level: "exploration", Rule: "fuzz", Parts: []part{{Name: "fuzz", Pkg: "rfc", Test: "TestFuzzC11", Race: true, Batches: [2]int{8, 16}}}},
	{ID: "C16", Level: "exploration", Rule: "fuzz", RaceIsViolation: true, Parts: []part{{Name: "fuzz", Pkg: "rfc", Test: "TestFuzzC16", Race: true, Batches: [2]int{8, 16}, DeathIsViolation: true}}},
	{ID: "C18", Level: "exploration", Rule: "fuzz", Parts: []part{{Name: "fuzz", Pkg: "rfc", Test: "TestFuzzC18", Race: true, Batches: [2]int{8, 16}}}},
	{ID: "C03", Level: "exploration", Rule: "fuzz", Parts: []part{{Name: "fuzz", Pkg: "rfc", Test: "TestFuzzC03", Batches: [2]int{8, 16}}}},
	{ID: "C04", Level: "exploration", Rule: "fuzz", Parts: []part{{Name: "fuzz", Pkg: "rfc", Test: "TestFuzzC04", Batches: [2]int{8, 16}}}},
	{ID: "C06", Level: "exploration", Rule: "fuzz", Parts: []part{{Name: "fuzz", Pkg: "rfc", Test: "TestFuzzC06", Batches: [2]int{8, 16}}}},
	{ID: "C07", Level: "exploration", Rule: "fuzz", Parts: []part{{Name: "fuzz", Pkg: "rfc", Test: "TestFuzzC07", Batches: [2]int{8, 16}}}},
}
