package main

var props = []prop{
	{ID: "C01", Level: "exploration",
		Rule: "grid part: one case = (stored response of the lifetime-source grid, elapsed time from the boundary pool, request directive variant); non-trivial = the lookup was answered from the store without foreground origin contact (the monitor's antecedent), distinct by (grid point, request variant, permission class). fuzz part: one case = one random history; non-trivial = at least one exchange of it was answered from the store without origin contact.",
		Assumptions: []string{"virtual time of testing/synctest equals the time the transport reads via time.Now", "reference age/lifetime arithmetic in harness/oracle (self-tested)"},
		Parts: []part{
			{Name: "grid", Pkg: "rfc", Test: "TestC01Grid", Batches: [2]int{8, 16}},
			{Name: "fuzz", Pkg: "rfc", Test: "TestFuzzC01", Race: true, Batches: [2]int{8, 16}, DeathIsViolation: false},
		}},
	{ID: "C02", Level: "exploration", Rule: "fuzz", Parts: []part{{Name: "fuzz", Pkg: "rfc", Test: "TestFuzzC02", Race: true, Batches: [2]int{8, 16}}}},
	{ID: "C10", Level: "fault_enumeration", Rule: "fuzz", Parts: []part{{Name: "fuzz", Pkg: "rfc", Test: "TestFuzzC10", Race: true, Batches: [2]int{8, 16}, DeathIsViolation: true}}},
	{ID: "C11", Level: "exploration", Rule: "fuzz", Parts: []part{{Name: "fuzz", Pkg: "rfc", Test: "TestFuzzC11", Race: true, Batches: [2]int{8, 16}}}},
	{ID: "C16", Level: "exploration", Rule: "fuzz", RaceIsViolation: true, Parts: []part{{Name: "fuzz", Pkg: "rfc", Test: "TestFuzzC16", Race: true, Batches: [2]int{8, 16}, DeathIsViolation: true}}},
	{ID: "C18", Level: "exploration", Rule: "fuzz", Parts: []part{{Name: "fuzz", Pkg: "rfc", Test: "TestFuzzC18", Race: true, Batches: [2]int{8, 16}}}},
	{ID: "C03", Level: "exploration",
		Rule: "bulk part: one case = a set of N URIs (seeded sets of 40 from component pools; thorough also the whole reduced grid) stored and looked up in one cache, which implies all N(N-1)/2 pairs; non-trivial = a pair the RFC 3986 classifier calls distinct (distinct key pairs, counted on a 1/8 subsample of the pairs, so a lower bound) or, for grid chunks, each grid URI. methods part: each method / GET+Range against a populated cache. fuzz part: random histories with the C03 monitor on every exchange.",
		Assumptions: []string{"harness RFC 3986 classifier (equivalent / distinct / unknown); pairs classified unknown are not judged"},
		Parts: []part{
			{Name: "bulk", Pkg: "rfc", Test: "TestC03Bulk", Batches: [2]int{8, 16}},
			{Name: "methods", Pkg: "rfc", Test: "TestC03Methods", Batches: [2]int{1, 1}},
			{Name: "fuzz", Pkg: "rfc", Test: "TestFuzzC03", Batches: [2]int{4, 16}},
		}},
	{ID: "C04", Level: "exploration", Rule: "fuzz", Parts: []part{{Name: "fuzz", Pkg: "rfc", Test: "TestFuzzC04", Batches: [2]int{8, 16}}}},
	{ID: "C06", Level: "exploration", Rule: "fuzz", Parts: []part{{Name: "fuzz", Pkg: "rfc", Test: "TestFuzzC06", Batches: [2]int{8, 16}}}},
	{ID: "C07", Level: "exploration", Rule: "fuzz", Parts: []part{{Name: "fuzz", Pkg: "rfc", Test: "TestFuzzC07", Batches: [2]int{8, 16}}}},
	{ID: "C09", Level: "exploration",
		Rule: "one case = (freshness source, status, backend, equivalent URI spelling pair, equivalent selecting-header pair, non-invalidating noise, elapsed time inside the lifetime by >= 2 s, harmless request directive); the follow-up must be answered from the store without origin contact with the stored token. Every executed case exercises the antecedent; distinct = distinct parameter tuples.",
		Assumptions: []string{"the generator only uses equivalences the cache documents (RFC 3986 6.2.2-6.2.3; header normalisation classes of internal/normalization.go)"},
		Parts: []part{{Name: "scenario", Pkg: "rfc", Test: "TestC09", Batches: [2]int{8, 16}}}},
}
