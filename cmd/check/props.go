package main

var props = []prop{
	{ID: "C01", Level: "exploration",
		Rule: "grid part: one case = (stored response of the lifetime-source grid, elapsed time from the boundary pool, request directive variant); non-trivial = the lookup was answered from the store without foreground origin contact (the monitor's antecedent), distinct by (grid point, request variant, permission class). fuzz part: one case = one random history; non-trivial = at least one exchange of it was answered from the store without origin contact.",
		Assumptions: []string{"virtual time of testing/synctest equals the time the transport reads via time.Now", "reference age/lifetime arithmetic in harness/oracle (self-tested)"},
		Parts: []part{
			{Name: "grid", Pkg: "rfc", Test: "TestC01Grid", Batches: [2]int{8, 16}},
		}},
}
