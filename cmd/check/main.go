// check is the orchestrator: `check run <id> <quick|thorough>` builds the
// workload binaries from /repo's current working tree, runs them as child
// processes per batch, merges what the monitors observed, matches violations
// against known_findings.json, writes replay files and the evidence file.
//
// Exit codes: 0 held (possibly with KNOWN-FINDING lines); 1 with a
// "VIOLATION property=<id> replay=<path>" line; 2 inconclusive / harness error.
package main

import (
	"bytes"
	"crypto/sha256"
	"encoding/hex"
	"encoding/json"
	"fmt"
	"os"
	"os/exec"
	"path/filepath"
	"regexp"
	"sort"
	"strconv"
	"strings"
	"sync"
	"syscall"
	"time"

	"verif/harness/run"
)

var root = "/verif"

type part struct {
	Name    string // part name (VERIF_PART)
	Pkg     string // package dir under harness/
	Test    string // -test.run pattern
	Race    bool
	Batches [2]int // quick, thorough
	// DeathIsViolation: abnormal child death (panic / fatal error in a
	// background goroutine) refutes this property
	DeathIsViolation bool
	TimeoutS         [2]int
}

type prop struct {
	ID          string
	Level       string
	Parts       []part
	Rule        string
	Assumptions []string
	// RaceIsViolation: race detector reports with a repository frame refute
	// this property (C16, C15); elsewhere they are cross observations
	RaceIsViolation bool
}

func findProp(id string) *prop {
	for i := range props {
		if props[i].ID == id {
			return &props[i]
		}
	}
	return nil
}

type knownFile struct {
	Open []struct {
		Property    string `json:"property"`
		Signature   string `json:"signature"`
		Description string `json:"description"`
		Witness     any    `json:"witness"`
	} `json:"open"`
	Fixed []string `json:"fixed"`
}

func goEnv() []string {
	env := os.Environ()
	out := env[:0:0]
	for _, e := range env {
		if strings.HasPrefix(e, "GOFLAGS=") || strings.HasPrefix(e, "GOPROXY=") || strings.HasPrefix(e, "GOSUMDB=") || strings.HasPrefix(e, "GOTOOLCHAIN=") {
			continue
		}
		out = append(out, e)
	}
	return append(out, "GOFLAGS=-mod=mod", "GOPROXY=off")
}

func build(p part) (string, error) {
	bin := filepath.Join(root, "bin", p.Pkg+".test")
	args := []string{"test", "-c", "-vet=off", "-o", bin}
	if p.Race {
		bin = filepath.Join(root, "bin", p.Pkg+".race.test")
		args = []string{"test", "-c", "-vet=off", "-race", "-o", bin}
	}
	args = append(args, "./harness/"+p.Pkg)
	try := func(goBin string, extra ...string) ([]byte, error) {
		cmd := exec.Command(goBin, args...)
		cmd.Dir = root
		cmd.Env = append(goEnv(), extra...)
		return cmd.CombinedOutput()
	}
	if g := os.Getenv("VERIF_GO"); g != "" { // experiments: build the workloads with another installed toolchain
		out, err := try(g, "GOTOOLCHAIN=local")
		if err != nil {
			return "", fmt.Errorf("build with %s failed: %v\n%s", g, err, out)
		}
		return bin, nil
	}
	out, err := try("go")
	if err != nil {
		out2, err2 := try("go1.26", "GOTOOLCHAIN=local")
		if err2 != nil {
			return "", fmt.Errorf("build failed: %v\n%s\nfallback go1.26: %v\n%s", err, out, err2, out2)
		}
	}
	return bin, nil
}

var buildMu sync.Mutex
var built = map[string]string{}

func buildOnce(p part) (string, error) {
	buildMu.Lock()
	defer buildMu.Unlock()
	k := fmt.Sprintf("%s/%v", p.Pkg, p.Race)
	if b, ok := built[k]; ok {
		return b, nil
	}
	b, err := build(p)
	if err == nil {
		built[k] = b
	}
	return b, err
}

type childOut struct {
	res      *run.Result
	part     part
	batch    int
	exitErr  error
	stderr   string
	journal  string
	raceLogs []string
	timedOut bool
}

var raceHdr = regexp.MustCompile(`(?m)^WARNING: DATA RACE`)

func runChild(pr *prop, p part, bin, tier string, seed int64, batch, nbatch int, replayIdx int, verbose bool, scratch string) childOut {
	tag := fmt.Sprintf("%s-%s-%d", pr.ID, p.Name, batch)
	outPath := filepath.Join(scratch, tag+".result.json")
	journal := filepath.Join(scratch, tag+".journal")
	stderrPath := filepath.Join(scratch, tag+".stderr")
	racePrefix := filepath.Join(scratch, tag+".race")
	ti := 0
	if tier == "thorough" {
		ti = 1
	}
	timeout := p.TimeoutS[ti]
	if timeout == 0 {
		timeout = []int{600, 3600}[ti]
	}
	args := []string{"-s", "QUIT", strconv.Itoa(timeout), bin, "-test.run", "^" + p.Test + "$", "-test.count=1", "-test.timeout=0"}
	if verbose {
		args = append(args, "-test.v")
	}
	cmd := exec.Command("timeout", args...)
	cmd.Dir = filepath.Join(root, "harness", p.Pkg)
	cmd.Env = append(os.Environ(),
		"VERIF_PROP="+pr.ID, "VERIF_PART="+p.Name, "VERIF_TIER="+tier,
		"VERIF_SEED="+strconv.FormatInt(seed, 10),
		"VERIF_BATCH="+strconv.Itoa(batch), "VERIF_NBATCH="+strconv.Itoa(nbatch),
		"VERIF_OUT="+outPath, "VERIF_JOURNAL="+journal,
		"VERIF_SCRATCH="+scratch,
		"VERIF_BIN="+bin,
		"GORACE=halt_on_error=0 exitcode=0 log_path="+racePrefix,
		"GOTRACEBACK=all",
	)
	if replayIdx >= 0 {
		cmd.Env = append(cmd.Env, "VERIF_REPLAY_IDX="+strconv.Itoa(replayIdx))
	}
	if verbose {
		cmd.Env = append(cmd.Env, "VERIF_VERBOSE=1")
	}
	ef, _ := os.Create(stderrPath)
	cmd.Stderr = ef
	if verbose {
		cmd.Stdout = os.Stdout
	} else {
		cmd.Stdout = ef
	}
	err := cmd.Run()
	ef.Close()
	co := childOut{part: p, batch: batch, exitErr: err}
	if ee, ok := err.(*exec.ExitError); ok {
		if ws, ok := ee.Sys().(syscall.WaitStatus); ok && ws.ExitStatus() == 124 {
			co.timedOut = true
		}
	}
	if b, e := os.ReadFile(stderrPath); e == nil {
		if len(b) > 1<<20 {
			b = append(b[:1<<19], b[len(b)-(1<<19):]...)
		}
		co.stderr = string(b)
	}
	if b, e := os.ReadFile(journal); e == nil {
		co.journal = string(b)
	}
	if b, e := os.ReadFile(outPath); e == nil {
		var r run.Result
		if json.Unmarshal(b, &r) == nil && r.Complete {
			co.res = &r
		}
	}
	if m, _ := filepath.Glob(racePrefix + ".*"); len(m) > 0 {
		for _, f := range m {
			if b, e := os.ReadFile(f); e == nil {
				co.raceLogs = append(co.raceLogs, string(b))
			}
		}
	}
	return co
}

func lastCase(journal string) (idx int, c json.RawMessage) {
	idx = -1
	lines := strings.Split(strings.TrimSpace(journal), "\n")
	for i := len(lines) - 1; i >= 0; i-- {
		if strings.HasPrefix(lines[i], "CASE ") {
			rest := lines[i][5:]
			sp := strings.IndexByte(rest, ' ')
			if sp > 0 {
				idx, _ = strconv.Atoi(rest[:sp])
				c = json.RawMessage(rest[sp+1:])
				if !json.Valid(c) {
					c = json.RawMessage(strconv.Quote(string(c)))
				}
			}
			return
		}
	}
	return
}

var panicLine = regexp.MustCompile(`(?m)^(panic: .*|fatal error: .*)$`)
var repoFrame = regexp.MustCompile(`github\.com/bartventer/httpcache[^\s]*\.[A-Za-z_(][^\s]*`)

// crashingStack returns the first stack block after the panic / fatal error
// line: the stack of the goroutine (or of the runtime) that crashed. With
// GOTRACEBACK=all the dump continues with every other goroutine, which says
// nothing about who crashed.
func crashingStack(stderr string) string {
	m := panicLine.FindString(stderr)
	if m == "" {
		return ""
	}
	rest := stderr[strings.Index(stderr, m)+len(m):]
	rest = strings.TrimLeft(rest, "\n")
	// skip "[recovered]" continuation lines up to the first block
	if i := strings.Index(rest, "\n\n"); i >= 0 {
		first := rest[:i]
		if !strings.Contains(first, "goroutine ") && !strings.Contains(first, "runtime stack:") {
			rest2 := strings.TrimLeft(rest[i:], "\n")
			if j := strings.Index(rest2, "\n\n"); j >= 0 {
				return rest2[:j]
			}
			return rest2
		}
		return first
	}
	return rest
}

// toolchainCrash: a fatal error inside the Go runtime itself (seen with
// go1.25.0: "fatal error: bad g->status in ready" from the timer code inside
// synctest bubbles) - no repository frame on the crashing stack.
func toolchainCrash(stderr string) bool {
	m := panicLine.FindString(stderr)
	if m == "" || !strings.HasPrefix(m, "fatal error:") {
		return false
	}
	if strings.Contains(m, "concurrent map") || strings.Contains(m, "all goroutines are asleep") {
		return false
	}
	return !strings.Contains(crashingStack(stderr), "github.com/bartventer/httpcache")
}

// deathSignature derives a structural signature from a crash dump.
func deathSignature(stderr string) (string, string) {
	m := panicLine.FindString(stderr)
	if m == "" {
		return "", ""
	}
	cs := crashingStack(stderr)
	if !strings.Contains(cs, "github.com/bartventer/httpcache") {
		return "", m
	}
	at := strings.Index(stderr, m)
	frame := repoFrame.FindString(stderr[at:])
	frame = regexp.MustCompile(`\(.*`).ReplaceAllString(frame, "")
	kind := m
	if strings.HasPrefix(m, "panic: ") {
		kind = "panic"
		if strings.Contains(m, "nil pointer") {
			kind = "panic-nil-deref"
		}
	}
	return kind + "@" + frame, m
}

type raceReport struct {
	Key  string
	Text string
	Repo bool
}

var frameFn = regexp.MustCompile(`(?m)^  (\S+)\(\)$`)

// splitRaces cuts race logs into report blocks and keys each by the set of
// repository functions on its stacks (line numbers stripped).
func splitRaces(logs []string) []raceReport {
	var out []raceReport
	for _, l := range logs {
		blocks := strings.Split(l, "==================")
		for _, b := range blocks {
			if !raceHdr.MatchString(b) {
				continue
			}
			fns := frameFn.FindAllStringSubmatch(b, -1)
			seen := map[string]bool{}
			var repoFns []string
			for _, f := range fns {
				fn := f[1]
				if strings.Contains(fn, "github.com/bartventer/httpcache") && !seen[fn] {
					seen[fn] = true
					repoFns = append(repoFns, strings.TrimPrefix(fn, "github.com/bartventer/httpcache"))
				}
			}
			sort.Strings(repoFns)
			out = append(out, raceReport{Key: strings.Join(repoFns, "+"), Text: b, Repo: len(repoFns) > 0})
		}
	}
	return out
}

func loadKnown() knownFile {
	var k knownFile
	b, err := os.ReadFile(filepath.Join(root, "known_findings.json"))
	if err == nil {
		_ = json.Unmarshal(b, &k)
	}
	return k
}

func main() {
	if r := os.Getenv("VERIF_ROOT"); r != "" {
		root = r
	} else if exe, err := os.Executable(); err == nil {
		// bin/check -> root
		d := filepath.Dir(filepath.Dir(exe))
		if _, err := os.Stat(filepath.Join(d, "properties.jsonl")); err == nil {
			root = d
		}
	}
	if len(os.Args) < 2 {
		usage()
	}
	switch os.Args[1] {
	case "run":
		if len(os.Args) < 4 {
			usage()
		}
		os.Exit(cmdRun(os.Args[2], os.Args[3], -1, "", false))
	case "replay":
		if len(os.Args) < 3 {
			usage()
		}
		os.Exit(cmdReplay(os.Args[2]))
	case "build":
		os.Exit(cmdBuild())
	case "list":
		for _, p := range props {
			fmt.Println(p.ID, p.Level, len(p.Parts))
		}
	default:
		usage()
	}
}

func usage() {
	fmt.Fprintln(os.Stderr, "usage: check run <id> <quick|thorough> | check replay <path> | check build | check list")
	os.Exit(2)
}

func cmdBuild() int {
	seen := map[string]bool{}
	for _, pr := range props {
		for _, p := range pr.Parts {
			k := fmt.Sprintf("%s/%v", p.Pkg, p.Race)
			if seen[k] {
				continue
			}
			seen[k] = true
			if _, err := buildOnce(p); err != nil {
				fmt.Fprintln(os.Stderr, err)
				return 2
			}
		}
	}
	return 0
}

type replayFile struct {
	Property  string `json:"property"`
	Part      string `json:"part"`
	Tier      string `json:"tier"`
	Seed      int64  `json:"seed"`
	Idx       int    `json:"idx"`
	Engine    string `json:"engine"`
	Signature string `json:"signature"`
	Expected  string `json:"expected"`
	Case      any    `json:"case"`
	Observed  any    `json:"observed"`
	HowTo     string `json:"how_to_replay"`
}

func cmdReplay(path string) int {
	b, err := os.ReadFile(path)
	if err != nil {
		fmt.Fprintln(os.Stderr, err)
		return 2
	}
	var rf replayFile
	if err := json.Unmarshal(b, &rf); err != nil {
		fmt.Fprintln(os.Stderr, err)
		return 2
	}
	os.Setenv("VERIF_SEED", strconv.FormatInt(rf.Seed, 10))
	return cmdRun(rf.Property, rf.Tier, rf.Idx, rf.Part, true)
}

func cmdRun(id, tier string, replayIdx int, replayPart string, verbose bool) int {
	start := time.Now()
	pr := findProp(id)
	if pr == nil {
		fmt.Fprintf(os.Stderr, "unknown property %s\n", id)
		return 2
	}
	if tier != "quick" && tier != "thorough" {
		fmt.Fprintf(os.Stderr, "tier must be quick or thorough\n")
		return 2
	}
	seed := int64(1)
	if s := os.Getenv("VERIF_SEED"); s != "" {
		if v, err := strconv.ParseInt(s, 10, 64); err == nil {
			seed = v
		}
	}
	ti := 0
	if tier == "thorough" {
		ti = 1
	}
	scratch, err := os.MkdirTemp("", "verif-"+id+"-")
	if err != nil {
		fmt.Fprintln(os.Stderr, err)
		return 2
	}
	defer os.RemoveAll(scratch)
	os.MkdirAll(filepath.Join(root, "bin"), 0o755)
	os.MkdirAll(filepath.Join(root, "evidence"), 0o755)
	os.MkdirAll(filepath.Join(root, "replays"), 0o755)

	if replayIdx < 0 {
		if old, _ := filepath.Glob(filepath.Join(root, "replays", id+"-*.json")); len(old) > 0 {
			for _, f := range old {
				os.Remove(f)
			}
		}
	}

	// build
	bins := map[string]string{}
	for _, p := range pr.Parts {
		b, err := buildOnce(p)
		if err != nil {
			fmt.Fprintf(os.Stderr, "HARNESS-ERROR: %v\n", err)
			return 2
		}
		bins[p.Name] = b
	}

	// run all batches of all parts, at most 16 children at a time
	type job struct {
		p     part
		batch int
		n     int
	}
	var jobs []job
	for _, p := range pr.Parts {
		if replayPart != "" && p.Name != replayPart {
			continue
		}
		n := max(p.Batches[ti], 1)
		if replayIdx >= 0 {
			n = 1
		}
		for b := 0; b < n; b++ {
			jobs = append(jobs, job{p, b, n})
		}
	}
	outs := make([]childOut, len(jobs))
	sem := make(chan struct{}, maxProcs())
	var wg sync.WaitGroup
	for i, j := range jobs {
		wg.Add(1)
		sem <- struct{}{}
		go func() {
			defer wg.Done()
			defer func() { <-sem }()
			outs[i] = runChild(pr, j.p, bins[j.p.Name], tier, seed, j.batch, j.n, replayIdx, verbose, scratch)
		}()
	}
	wg.Wait()

	// a child killed by a crash of the Go runtime itself is re-run (twice at most)
	retried := 0
	for attempt := 0; attempt < 2; attempt++ {
		for i, j := range jobs {
			if outs[i].res == nil && !outs[i].timedOut && toolchainCrash(outs[i].stderr) {
				retried++
				outs[i] = runChild(pr, j.p, bins[j.p.Name], tier, seed, j.batch, j.n, replayIdx, verbose, scratch)
			}
		}
	}

	// merge
	known := loadKnown()
	merged := map[string]any{}
	counters := map[string]int64{}
	cross := map[string]int64{}
	sets := map[string]map[string]bool{}
	nt := map[uint64]bool{}
	var evaluations int64
	var samples []any
	var violations []run.Violation
	var inconclusive []string
	exhaustive := true
	harnessErr := false
	var races []raceReport
	perPart := map[string]map[string]int64{}

	for _, co := range outs {
		if co.res == nil {
			// abnormal death
			idx, c := lastCase(co.journal)
			sig, line := deathSignature(co.stderr)
			tail := co.stderr
			if len(tail) > 6000 {
				tail = tail[:3000] + "\n...\n" + tail[len(tail)-3000:]
			}
			switch {
			case co.timedOut:
				inconclusive = append(inconclusive, fmt.Sprintf("part %s batch %d: watchdog expired at case %d", co.part.Name, co.batch, idx))
				if co.part.DeathIsViolation && pr.ID == "C10" {
					violations = append(violations, run.Violation{Property: pr.ID, Clause: "hang", Signature: "hang/watchdog",
						Message: "child did not finish within the wall-clock watchdog", Part: co.part.Name, Idx: idx, Case: c, Observed: tail})
				} else {
					harnessErr = true
				}
			case sig != "" && co.part.DeathIsViolation:
				violations = append(violations, run.Violation{Property: pr.ID, Clause: "process-death", Signature: "process-death/" + sig,
					Message: "process died while executing the journalled case: " + line, Part: co.part.Name, Idx: idx, Case: c, Observed: tail})
			default:
				harnessErr = true
				inconclusive = append(inconclusive, fmt.Sprintf("part %s batch %d died (%v) at case %d: %s", co.part.Name, co.batch, co.exitErr, idx, firstLines(tail, 30)))
			}
			continue
		}
		r := co.res
		evaluations += r.Evaluations
		for k, v := range r.Counters {
			counters[k] += v
			if perPart[co.part.Name] == nil {
				perPart[co.part.Name] = map[string]int64{}
			}
			perPart[co.part.Name][k] += v
		}
		for k, v := range r.Cross {
			cross[k] += v
		}
		for name, l := range r.Sets {
			if sets[name] == nil {
				sets[name] = map[string]bool{}
			}
			for _, m := range l {
				sets[name][m] = true
			}
		}
		for _, h := range r.Nontrivial {
			nt[h] = true
		}
		if len(samples) < 6 {
			for _, s := range r.Samples {
				if len(samples) < 6 {
					samples = append(samples, s)
				}
			}
		}
		violations = append(violations, r.Violations...)
		inconclusive = append(inconclusive, r.Inconclusive...)
		if !r.Exhaustive {
			exhaustive = false
		}
		rs := splitRaces(co.raceLogs)
		for i := range rs {
			rs[i].Text = fmt.Sprintf("[part %s batch %d]\n%s", co.part.Name, co.batch, rs[i].Text)
		}
		races = append(races, rs...)
	}

	// race reports
	raceKeys := map[string]int{}
	for _, rr := range races {
		raceKeys[rr.Key]++
	}
	counters["race_reports_raw"] = int64(len(races))
	counters["race_reports_distinct"] = int64(len(raceKeys))
	if len(races) > 0 {
		first := map[string]raceReport{}
		for _, rr := range races {
			if _, ok := first[rr.Key]; !ok {
				first[rr.Key] = rr
			}
		}
		for k, rr := range first {
			if !rr.Repo {
				harnessErr = true
				inconclusive = append(inconclusive, "race report without a repository frame (harness race):\n"+firstLines(rr.Text, 40))
				continue
			}
			if !pr.RaceIsViolation {
				cross["C16:data-race"] += int64(raceKeys[k])
				continue
			}
			violations = append(violations, run.Violation{Property: pr.ID, Clause: "data-race", Signature: "data-race/" + k,
				Message: fmt.Sprintf("race detector report (%d occurrences) involving %s", raceKeys[k], k), Part: "race", Idx: -1,
				Observed: firstLines(rr.Text, 80)})
		}
	}

	// classify violations
	exit := 0
	nKnown, nNew := 0, 0
	printed := map[string]bool{}
	sort.SliceStable(violations, func(i, j int) bool { return violations[i].Signature < violations[j].Signature })
	for _, v := range violations {
		if v.Property != pr.ID {
			continue
		}
		isKnown := false
		for _, k := range known.Open {
			if k.Property == v.Property && k.Signature == v.Signature {
				isKnown = true
				if !printed["K"+v.Signature] {
					printed["K"+v.Signature] = true
					fmt.Printf("KNOWN-FINDING: property=%s %s [%s]\n", v.Property, k.Description, v.Signature)
				}
			}
		}
		if isKnown {
			nKnown++
			continue
		}
		nNew++
		if printed["V"+v.Signature] {
			continue
		}
		printed["V"+v.Signature] = true
		h := sha256.Sum256([]byte(fmt.Sprintf("%s|%s|%d|%d|%s", v.Signature, v.Part, seed, v.Idx, tier)))
		rp := filepath.Join(root, "replays", fmt.Sprintf("%s-%s.json", pr.ID, hex.EncodeToString(h[:6])))
		rf := replayFile{Property: pr.ID, Part: v.Part, Tier: tier, Seed: seed, Idx: v.Idx, Engine: partPkg(pr, v.Part),
			Signature: v.Signature, Expected: v.Message, Case: v.Case, Observed: v.Observed,
			HowTo: fmt.Sprintf("cd %s && ./check replay %s", root, rp)}
		b, _ := json.MarshalIndent(rf, "", " ")
		_ = os.WriteFile(rp, b, 0o644)
		if replayIdx < 0 || true {
			fmt.Printf("VIOLATION property=%s replay=%s\n", pr.ID, rp)
			fmt.Printf("  signature: %s\n  %s\n", v.Signature, firstLines(v.Message, 12))
		}
		exit = 1
	}

	if replayIdx >= 0 {
		fmt.Printf("replay: %d evaluations, %d violations (%d known)\n", evaluations, nNew+nKnown, nKnown)
		return exit
	}

	// evidence
	setCounts := map[string]any{}
	for name, m := range sets {
		l := make([]string, 0, len(m))
		for k := range m {
			l = append(l, k)
		}
		sort.Strings(l)
		if len(l) > 40 {
			setCounts[name] = map[string]any{"count": len(l), "first": l[:40]}
		} else {
			setCounts[name] = map[string]any{"count": len(l), "members": l}
		}
	}
	cov := map[string]any{
		"evaluations":                           evaluations,
		"distinct_nontrivial":                   len(nt),
		"rule":                                  pr.Rule,
		"samples":                               samples,
		"counters":                              counters,
		"counters_by_part":                      perPart,
		"distinct_sets":                         setCounts,
		"cross_observations":                    cross,
		"known_findings_hit":                    nKnown,
		"children":                              len(outs),
		"children_rerun_after_go_runtime_crash": retried,
	}
	if exhaustive && len(outs) > 0 && tier == "thorough" {
		cov["exhaustive"] = true
	}
	if len(inconclusive) > 0 {
		if len(inconclusive) > 20 {
			inconclusive = inconclusive[:20]
		}
		cov["inconclusive"] = inconclusive
	}
	merged["property_id"] = pr.ID
	merged["tier"] = tier
	merged["seed"] = seed
	merged["level"] = pr.Level
	merged["coverage"] = cov
	assume := append([]string{"the harness attaches only through public extension points; checks rebuild from /repo's working tree"}, pr.Assumptions...)
	merged["assumptions"] = assume
	merged["wall_s"] = time.Since(start).Seconds()
	merged["violations"] = nNew
	if len(samples) == 0 {
		cov["samples"] = []any{"(no sample recorded)"}
	}
	eb, _ := json.MarshalIndent(merged, "", " ")
	if err := os.WriteFile(filepath.Join(root, "evidence", pr.ID+".json"), eb, 0o644); err != nil {
		fmt.Fprintln(os.Stderr, "HARNESS-ERROR: cannot write evidence:", err)
		return 2
	}

	fmt.Printf("%s %s seed=%d: %d evaluations, %d distinct non-trivial, %d violations, %d known-finding hits, %d race reports, %.1fs\n",
		pr.ID, tier, seed, evaluations, len(nt), nNew, nKnown, len(races), time.Since(start).Seconds())
	if exit == 1 {
		return 1
	}
	if harnessErr {
		fmt.Printf("INCONCLUSIVE property=%s (harness error)\n", pr.ID)
		for _, s := range inconclusive {
			fmt.Println("  " + firstLines(s, 40))
		}
		return 2
	}
	if len(nt) < 2 {
		fmt.Printf("INCONCLUSIVE property=%s: the monitor's antecedent fired in %d distinct cases\n", pr.ID, len(nt))
		return 2
	}
	return 0
}

func partPkg(pr *prop, name string) string {
	for _, p := range pr.Parts {
		if p.Name == name {
			return p.Pkg + "/" + p.Test
		}
	}
	return name
}

func firstLines(s string, n int) string {
	lines := strings.Split(s, "\n")
	if len(lines) > n {
		lines = append(lines[:n], "...")
	}
	return strings.Join(lines, "\n")
}

func maxProcs() int {
	if s := os.Getenv("VERIF_PROCS"); s != "" {
		if n, err := strconv.Atoi(s); err == nil && n > 0 {
			return n
		}
	}
	return 16
}

var _ = bytes.NewReader
