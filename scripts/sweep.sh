#!/bin/bash
# Silence sweep: every check at several seeds (quick) or one seed (thorough).
#   scripts/sweep.sh quick "1 2 3 7 1234"   |   scripts/sweep.sh thorough "1"
tier=${1:-quick}; seeds=${2:-"1 2 3 7 1234"}; props=${3:-"C01 C02 C03 C04 C05 C06 C07 C08 C09 C10 C11 C12 C13 C14 C15 C16 C17 C18 C19 C20"}
cd "$(dirname "$0")/.." || exit 2
bad=0
for s in $seeds; do
  for p in $props; do
    out=$(VERIF_SEED=$s ./check run $p $tier 2>&1); rc=$?
    line=$(echo "$out" | grep -E "^C[0-9]+ " | tail -1)
    echo "seed=$s rc=$rc $line"
    if [ $rc -ne 0 ]; then bad=$((bad+1)); echo "$out" | grep -E "^VIOLATION|signature|INCONCL|HARNESS" | head -8; fi
  done
done
echo "SWEEP DONE tier=$tier bad=$bad"
