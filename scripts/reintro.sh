#!/bin/sh
# Re-introduction test: temporarily reverts one fix commit in /repo's working
# tree (never committed), runs a check, restores the tree.
#   scripts/reintro.sh <commit> <property> [tier]
# Expectation: the check reports a VIOLATION (exit 1).
commit=$1; prop=$2; tier=${3:-quick}
cd /repo || exit 2
if [ -n "$(git status --porcelain)" ]; then echo "/repo not clean" >&2; exit 2; fi
trap 'git -C /repo checkout -- . ' EXIT
for c in $commit; do   # several commits: newest first
  git show "$c" | git apply -R || { echo "cannot revert $c" >&2; exit 2; }
done
cd /verif && ./check run "$prop" "$tier" | grep -E "^VIOLATION|^KNOWN|^C[0-9]|INCONCL|signature" | head -12
