#!/bin/sh
# Runs the repository's own test suite (hooks off: no build tag) and checks that
# every test of the stable baseline (/root/.vp/BASELINE.json) still passes.
export GOFLAGS=-mod=mod GOPROXY=off
unset GOSUMDB GOTOOLCHAIN
cd /repo || exit 2
out=$(mktemp)
go test -json -vet=off -count=1 -timeout 25m ./... > "$out" 2>/dev/null
python3 - "$out" <<'PY'
import json,sys
passed=set(); failed=set()
for l in open(sys.argv[1]):
    try: e=json.loads(l)
    except Exception: continue
    if e.get('Test') and e.get('Action') in('pass','fail'):
        (passed if e['Action']=='pass' else failed).add(e['Package']+'::'+e['Test'])
base=json.load(open('/root/.vp/BASELINE.json'))
stable=set(base['stable_pass'])
missing=sorted(stable-passed)
print(f"baseline: {len(stable)} stable tests, {len(stable&passed)} pass now, {len(missing)} missing/failing; other failures: {sorted(failed-set(base.get('always_fail',[])))}")
for m in missing[:30]: print("  MISSING", m)
sys.exit(1 if missing else 0)
PY
rc=$?
rm -f "$out"
exit $rc
