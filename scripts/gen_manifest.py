#!/usr/bin/env python3
"""Regenerates /verif/MANIFEST.json from the table below (one place to edit)."""
import json, os, sys

ROOT = os.path.dirname(os.path.dirname(os.path.abspath(__file__)))

# id -> (level, technique, level text, level note, design ref)
def T(level, tech, text, note, ref):
    return (level, tech, text, note, ref)

RM = "runtime monitoring of the real transport in testing/synctest virtual time: "
CHECKS = {
 "C01": T("exploration", RM + "reference RFC 9111 age/lifetime oracle on every from-store answer; exhaustive lifetime-source grid x boundary elapsed times x request directives, plus random histories under the race detector",
   "Every lookup answered from the store without origin contact is judged by an independent saturating age/lifetime computation fed from the harness's own records; held = no surely-stale serve without max-stale / only-if-cached / stale-while-revalidate on the cases executed.",
   "trusts testing/synctest virtual time, the harness oracle and the token identities; +-1 s guard bands at heuristic / max-stale / SWR boundaries are not judged", "DESIGN.md 4 C01"),
 "C02": T("exploration", RM + "universal monitor (validation demanded => a 304 was obtained in this exchange, or the origin's own answer returned), validation-request and request-object snapshots, over random histories under the race detector",
   "Flags every from-store answer without a 304 in the same exchange where stored no-cache / stale must-revalidate / request no-cache / exceeded request max-age / a qualified no-cache field apply; checks validation requests and that the caller's request object is unchanged.",
   "client-supplied conditionals and duplicated directives are not judged", "DESIGN.md 4 C02"),
 "C03": T("exploration", RM + "bulk store/lookup of URI sets (all pairs implied) judged by an independent RFC 3986 equivalence classifier; every method and GET+Range against a populated cache; random histories",
   "A foreign body token returned for a URI the classifier calls distinct, or any from-store answer to a non-GET / Range request, is a violation.",
   "pairs classified unknown (userinfo, '?' vs none, %2E dot segments, raw vs encoded non-ASCII, opaque vs hierarchical) are not judged", "DESIGN.md 4 C03"),
 "C04": T("exploration", RM + "universal monitor comparing the request that fetched the body with the current request on every nominated Vary field (aggressive normalisation => only sure differences count), over random histories with changing Vary sets",
   "A from-store, unvalidated answer whose stored Vary nominates a field on which the two requests surely differ, or whose Vary has a '*' member, is a violation.",
   "values the aggressive normaliser equates are not judged; true 64-bit hash collisions are not sought", "DESIGN.md 4 C04"),
 "C06": T("exploration", RM + "monitor on every Set reaching the recording driver.Conn (values scanned for body tokens / X-Msg ids of messages that must not be stored), over random histories",
   "Any store write containing a message whose request/response forbids storing (no-store, non-GET, Range, 1xx/206/304, must-understand with unknown status, no freshness + non-heuristic status, failed body) and any unconditional GET answered 304 is a violation.",
   "token scan works on plaintext backends; statuses in any heuristic list are treated as storable", "DESIGN.md 4 C06"),
 "C07": T("exploration", RM + "token-epoch monitor: after a successful unsafe exchange no body stored earlier for the equivalent target (or a same-origin URI named by Location/Content-Location) may come back unvalidated; random histories mixing methods",
   "Negative half on every exchange of random histories.", "sequential histories only", "DESIGN.md 4 C07"),
 "C08": T("exploration", RM + "scenario oracle over validation chains (304 with header updates / full 200, foreground and stale-while-revalidate background, several variants): follow-ups inside the new lifetime must come from the store with the right body, header block and restarted Age",
   "The generator knows what must be served after each validation; any origin contact, wrong body, stale header block, Content-Length/hop-by-hop merge, non-restarted Age or lost variant is a violation.",
   "scripted origin; +-1..2 s tolerance on Age", "DESIGN.md 4 C08"),
 "C09": T("exploration", RM + "scenario oracle: store, non-invalidating noise, then an equivalent request (URI and header spellings the cache documents) inside the lifetime must be answered from the store without origin contact; memory, fs, encrypted fs and reopened fs backends",
   "Catches 'safe but useless' regressions: any origin contact or foreign token for a fresh matching request is a violation.",
   "only equivalences the cache documents are used; margins >= 2 s", "DESIGN.md 4 C09"),
 "C10": T("fault_enumeration", RM + "recover()/nil-nil/error-origin monitor on every exchange of random histories incl. origin errors, 5xx, failing bodies; child process per batch so that a crash in a background goroutine is attributed to the journalled case",
   "Panics, (nil,nil), errors without an origin failure and process deaths are violations.",
   "upstreams that break the RoundTripper contract are out of scope", "DESIGN.md 4 C10"),
 "C11": T("exploration", RM + "universal monitor comparing Age with the oracle's current age (+-1 s) and X-Httpcache-Status / X-From-Cache with what the upstream log shows, on every exchange of random histories",
   "Wrong/missing/multiple Age on unvalidated from-store answers and status values inconsistent with the upstream log are violations.",
   "HIT or STALE both accepted for stale serves", "DESIGN.md 4 C11"),
 "C12": T("exploration", RM + "metamorphic pairs: the same scripted history with canonical and re-spelled Cache-Control (case, OWS, empty members, quoted arguments, field-line splits, order, extensions) must give identical observation vectors; huge delta-seconds vs 2147483648",
   "Any difference of the per-exchange observation vector between spellings is a violation.",
   "rewrites are meaning-preserving per RFC 9111 5.2; duplicates not generated", "DESIGN.md 4 C12"),
 "C16": T("exploration", "Go race detector over random histories with background revalidation, plus snapshot comparison of every returned header map at return / quiescence / end of history",
   "Race reports with a repository frame and any change of a returned header map after return are violations.",
   "race detector sees only reached paths; report set varies run to run", "DESIGN.md 4 C16"),
 "C18": T("exploration", RM + "universal monitor: an only-if-cached exchange must have no upstream call (foreground or background, after quiescence) and be a usable stored response or the synthesised 504",
   "Any origin contact, any other result, or a stored response that needs validation is a violation.",
   "virtual time; random histories with only-if-cached sprinkled in", "DESIGN.md 4 C18"),
}

NOT_YET = {}

def main():
    props = [json.loads(l) for l in open(os.path.join(ROOT, "properties.jsonl"))]
    checks = []
    na = []
    for p in props:
        pid = p["id"]
        if pid in CHECKS:
            level, tech, text, note, ref = CHECKS[pid]
            checks.append({
                "property_id": pid,
                "quick_cmd": f"./check run {pid} quick",
                "thorough_cmd": f"./check run {pid} thorough",
                "evidence_file": f"/verif/evidence/{pid}.json",
                "replay_cmd_template": "./check replay {path}",
                "engine": "runtime-monitor",
                "level_claimed": {"category": level, "text": text, "design_ref": ref},
                "level_note": note,
                "technique": tech,
            })
        else:
            na.append({"property_id": pid, "reason": NOT_YET.get(pid, "check not built yet in this session; runtime monitoring applies (see DESIGN.md section 4) and the check is being added")})
    m = {
        "version": 1,
        "setup_cmd": "cd /verif && ./check build",
        "hooks": {
            "guard": "verif",
            "enable": "none needed: the harness attaches through public extension points (store.Register driver, WithUpstream, WithLogger), testing/synctest virtual time and OS-level fault injection; no file in /repo carries the tag",
            "baseline_off_cmd": "/verif/scripts/baseline.sh",
            "source_commits": [],
            "add_only": True,
        },
        "engines": [
            {"name": "runtime-monitor", "path": "/verif/harness", "serves_properties": sorted(CHECKS), "kind_free_text": "Go test binaries (with and without -race) run as child processes per batch by /verif/check; monitors over recorded exchanges, store operations and histories"},
        ],
        "checks": checks,
        "notes": "All checks rebuild from /repo's working tree (go module replace => /repo). Exit 0 held, 1 VIOLATION, 2 inconclusive/harness error. known_findings.json lists open findings and fixed defects.",
        "not_applicable": na,
    }
    json.dump(m, open(os.path.join(ROOT, "MANIFEST.json"), "w"), indent=1)
    print("MANIFEST.json:", len(checks), "checks,", len(na), "not applicable")

if __name__ == "__main__":
    main()
