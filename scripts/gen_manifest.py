#!/usr/bin/env python3
"""Regenerates /verif/MANIFEST.json from the table below (one place to edit)."""
import json, os, sys

ROOT = os.path.dirname(os.path.dirname(os.path.abspath(__file__)))

# id -> (level, technique, level text, level note, design ref)
CHECKS = {
 "C01": ("exploration",
   "runtime monitor (reference RFC 9111 age/lifetime oracle) over executions of the real transport in virtual time: exhaustive lifetime-source grid x boundary elapsed times x request directives, plus random histories under the race detector",
   "Every lookup answered from the store without origin contact is judged by an independent saturating age/lifetime computation fed from the harness's own records; held = no surely-stale serve without max-stale / only-if-cached / stale-while-revalidate on the cases executed. Exploration is the right level: the statement quantifies over header values, delays and elapsed times that virtual time makes cheap to enumerate, but not over a finite state space.",
   "trusts testing/synctest virtual time, the harness oracle (self-tested) and the token identities; +-1 s guard bands at heuristic / max-stale / SWR boundaries are not judged",
   "DESIGN.md 4 C01"),
}

NOT_YET = {}

def main():
    props = [json.loads(l) for l in open(os.path.join(ROOT, "properties.jsonl"))]
    checks = []
    na = []
    for p in props:
        pid = p["id"]
        if pid in CHECKS:
            level, tech, text, note, ref = CHECKS[pid]
            checks.append({
                "property_id": pid,
                "quick_cmd": f"./check run {pid} quick",
                "thorough_cmd": f"./check run {pid} thorough",
                "evidence_file": f"/verif/evidence/{pid}.json",
                "replay_cmd_template": "./check replay {path}",
                "engine": "runtime-monitor",
                "level_claimed": {"category": level, "text": text, "design_ref": ref},
                "level_note": note,
                "technique": tech,
            })
        else:
            na.append({"property_id": pid, "reason": NOT_YET.get(pid, "check not built yet in this session; runtime monitoring applies (see DESIGN.md section 4) and the check is being added")})
    m = {
        "version": 1,
        "setup_cmd": "cd /verif && ./check build",
        "hooks": {
            "guard": "verif",
            "enable": "none needed: the harness attaches through public extension points (store.Register driver, WithUpstream, WithLogger), testing/synctest virtual time and OS-level fault injection; no file in /repo carries the tag",
            "baseline_off_cmd": "/verif/scripts/baseline.sh",
            "source_commits": [],
            "add_only": True,
        },
        "engines": [
            {"name": "runtime-monitor", "path": "/verif/harness", "serves_properties": sorted(CHECKS), "kind_free_text": "Go test binaries (with and without -race) run as child processes per batch by /verif/check; monitors over recorded exchanges, store operations and histories"},
        ],
        "checks": checks,
        "notes": "All checks rebuild from /repo's working tree (go module replace => /repo). Exit 0 held, 1 VIOLATION, 2 inconclusive/harness error. known_findings.json lists open findings and fixed defects.",
        "not_applicable": na,
    }
    json.dump(m, open(os.path.join(ROOT, "MANIFEST.json"), "w"), indent=1)
    print("MANIFEST.json:", len(checks), "checks,", len(na), "not applicable")

if __name__ == "__main__":
    main()
