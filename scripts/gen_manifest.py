#!/usr/bin/env python3
"""Regenerates /verif/MANIFEST.json from the table below (one place to edit)."""
import json, os, sys

ROOT = os.path.dirname(os.path.dirname(os.path.abspath(__file__)))

# id -> (level, technique, level text, level note, design ref)
def T(level, tech, text, note, ref):
    return (level, tech, text, note, ref)

RM = "runtime monitoring of the real transport in testing/synctest virtual time: "
CHECKS = {
 "C01": T("exploration", RM + "reference RFC 9111 age/lifetime oracle on every from-store answer; exhaustive lifetime-source grid x boundary elapsed times x request directives, an overlap part in which a slow background validation lands on an entry another exchange rewrote meanwhile, plus random histories under the race detector",
   "Every lookup answered from the store without origin contact is judged by an independent saturating age/lifetime computation fed from the harness's own records; held = no surely-stale serve without max-stale / only-if-cached / stale-while-revalidate on the cases executed.",
   "trusts testing/synctest virtual time, the harness oracle and the token identities; +-1 s guard bands at max-stale / SWR boundaries are not judged; a repeated max-age is read as its first occurrence, or stale", "DESIGN.md 4 C01"),
 "C02": T("exploration", RM + "universal monitor (validation demanded => a 304 was obtained in this exchange, or the origin's own answer returned), validation-request and request-object snapshots, over random histories under the race detector; a client-conditionals part (stored validators x client preconditions x request directives after the origin moved on)",
   "Flags every from-store answer without a 304 in the same exchange where stored no-cache / stale must-revalidate / request no-cache / exceeded request max-age / a qualified no-cache field apply; checks validation requests and that the caller's request object is unchanged.",
   "a 304 counts as a validation only if the precondition the origin evaluated was copied from the stored response (read from the bytes the store returned); request max-age and max-stale add up", "DESIGN.md 4 C02"),
 "C03": T("exploration", RM + "bulk store/lookup of URI sets (all pairs implied) judged by an independent RFC 3986 equivalence classifier; every method and GET+Range against a populated cache; malformed percent-escapes in queries; random histories",
   "A foreign body token returned for a URI the classifier calls distinct, or any from-store answer to a non-GET / Range request, is a violation.",
   "pairs classified unknown (userinfo, raw vs encoded non-ASCII, opaque vs hierarchical, a stray '%' next to a real escape) are not judged", "DESIGN.md 4 C03"),
 "C04": T("exploration", RM + "universal monitor comparing the request that fetched the body with the current request on every nominated Vary field (aggressive normalisation => only sure differences count), over random histories with changing Vary sets, and a reuse part in which the caller re-targets its request object while a background validation is in flight",
   "A from-store, unvalidated answer whose stored Vary nominates a field on which the two requests surely differ, or whose Vary has a '*' member, is a violation.",
   "values the aggressive normaliser equates are not judged; true 64-bit hash collisions are not sought", "DESIGN.md 4 C04"),
 "C06": T("exploration", RM + "monitor on every Set reaching the recording driver.Conn (values scanned for body tokens / X-Msg ids of messages that must not be stored), over random histories",
   "Any store write containing a message whose request/response forbids storing (no-store, non-GET, Range, 1xx/206/304, must-understand with unknown status, no freshness + non-heuristic status, failed body) and any unconditional GET answered 304 is a violation.",
   "token scan works on plaintext backends; statuses in any heuristic list are treated as storable", "DESIGN.md 4 C06"),
 "C07": T("exploration", RM + "token-epoch monitor: after a successful unsafe exchange no body stored earlier for the equivalent target (or a same-origin URI named by Location/Content-Location) may come back unvalidated; random histories mixing methods",
   "Negative half on every exchange of random histories.", "sequential histories (interleavings with unsafe requests are judged by C16 Mode S); a background reply that arrives after the unsafe request counts as pre-invalidation content, except for a virtual-time tie with a newer request", "DESIGN.md 4 C07"),
 "C08": T("exploration", RM + "scenario oracle over validation chains (304 with header updates / full 200, foreground and stale-while-revalidate background, several variants): follow-ups inside the new lifetime must come from the store with the right body, header block and restarted Age; an inflight part in which a reload replaces the representation while a slow background validation of it is in flight (the late answer must not bring the replaced one back, nor put its header block on the new body)",
   "The generator knows what must be served after each validation; any origin contact, wrong body, stale header block, Content-Length/hop-by-hop merge, non-restarted Age or lost variant is a violation.",
   "scripted origin; +-1..2 s tolerance on Age; a 304 without Age restarts the age (a carried-over Age is a violation)", "DESIGN.md 4 C08"),
 "C09": T("exploration", RM + "scenario oracle: store, non-invalidating noise, then an equivalent request (URI and header spellings the cache documents) inside the lifetime must be answered from the store without origin contact; memory, fs, encrypted fs and reopened fs backends",
   "Catches 'safe but useless' regressions: any origin contact or foreign token for a fresh matching request is a violation.",
   "only equivalences the cache documents are used; margins >= 2 s", "DESIGN.md 4 C09"),
 "C10": T("fault_enumeration", RM + "recover()/nil-nil/error-origin monitor on every exchange of random histories incl. origin errors, 5xx, failing bodies; child process per batch so that a crash in a background goroutine is attributed to the journalled case; every upstream reply must be handed to the caller or released by quiescence (close / EOF tracking in the simulator); upstream responses with a nil header map at every stage",
   "Panics, (nil,nil), errors without an origin failure, process deaths and upstream replies that are neither handed on nor released (their connection stays checked out: the next round trip of a connection-limited client hangs) are violations.",
   "upstreams that break the RoundTripper contract are out of scope", "DESIGN.md 4 C10"),
 "C11": T("exploration", RM + "universal monitor comparing Age with the oracle's current age (+-1 s) and X-Httpcache-Status / X-From-Cache with what the upstream log shows, on every exchange of random histories",
   "Wrong/missing/multiple Age on unvalidated from-store answers and status values inconsistent with the upstream log are violations.",
   "HIT or STALE both accepted for stale serves", "DESIGN.md 4 C11"),
 "C12": T("exploration", RM + "metamorphic pairs: the same scripted history with canonical and re-spelled Cache-Control (case, OWS, empty members, quoted arguments, field-line splits, order, extensions) must give identical observation vectors; huge delta-seconds vs 2147483648",
   "Any difference of the per-exchange observation vector between spellings is a violation.",
   "rewrites are meaning-preserving per RFC 9111 5.2; duplicates not generated", "DESIGN.md 4 C12"),
 "C05": T("exploration", "runtime comparison behind real framing: raw HTTP/1.0 / 1.1 byte scripts over net.Pipe and unencrypted HTTP/2 over loopback through a real net/http client transport; the origin response is snapshotted before the cache sees it and compared field-by-field and byte-by-byte with what comes back from the store (memory, fs, encrypted fs); store writes scanned for hop-by-hop fields; a 304 phase checks merging and a replacement phase (forced validation answered with a full reply) repeats the comparison; a concurrent-stores part serialises and stores many resources at once and reads each back alone; race detector on",
   "Any difference in status, body bytes or the ordered values of an end-to-end field, any extra field, any hop-by-hop field stored or replayed, and any damaged miss body is a violation.",
   "trailers exercised but not asserted; HTTP/3 absent; header information net/http itself removes (e.g. a Connection header carrying 'close') cannot be judged", "DESIGN.md 4 C05"),
 "C13": T("fault_enumeration", RM + "scenario oracle over the full grid placement x window x staleness x failure kind (transport error, every status 400-599) x excluding directive, plus windows too large to represent; the scripted origin fails the validation and the result is compared with what the statement prescribes",
   "Inside the window with an eligible failure and no must-revalidate / no-cache the stored response must come back STALE with a correct Age; otherwise the origin's reply or the error.",
   "staleness within 1 s of N (and within the failure's latency) is not judged", "DESIGN.md 4 C13"),
 "C14": T("exploration", "model-based runtime checking: every result of Set/Get/Delete/Keys (and of the maintenance HTTP handlers) compared with an in-harness map over adversarial key sets (incl. keys nested deeper than PATH_MAX) and backend configurations incl. reopen; porcupine linearizability check for concurrent memory-backend histories; disjoint-key concurrency on fs under the race detector; a timeout-isolation part (1 ns operation timeout, caller overwrites its buffer after Set returned)",
   "Any result that differs from the map (wrong bytes, error on a legal key, missing ErrNotExist, wrong listing, aliasing with caller buffers) is a violation.",
   "keys up to about 6 kB (deeper than PATH_MAX); keys not addressable through an HTTP path segment are not judged via the API", "DESIGN.md 4 C14"),
 "C15": T("fault_enumeration", "porcupine linearizability checking of recorded concurrent fs histories with self-describing values (plain, encrypted and update_mtime configurations; race detector on; a Get error other than not-exist is a violation there); child processes whose writes are cut at EVERY byte by RLIMIT_FSIZE; writers killed by timed SIGKILL or strace signal injection at syscall boundaries, with the on-disk states seen recorded; after every cut / kill the reopened backend must list consistently with Get and read a later, shorter Set back exactly; the same cut applied under a real transport",
   "A Get returning bytes that are not, in full, a value ever Set for the key, an illegal history, or a transport serving a damaged body is a violation.",
   "process kill is not power loss; strace when=N counts per thread (coverage = recorded disk states)", "DESIGN.md 4 C15"),
 "C17": T("fault_enumeration", "tamper enumeration on the real backend files (every byte position x masks, every truncation, extensions, block swaps, multi-byte edits, replacement by another entry's file written with the same key) with Get as the oracle; plaintext-window / nonce / ciphertext-equality scan of every file written through every configuration path, also under overlapping writers (race detector on); unusable keys x configuration paths; tampering under a real transport",
   "A tampered file that yields data, plaintext or a repeated nonce on disk, a wrong key yielding data, or an open without a usable key is a violation.",
   "tampering is judged through Get only", "DESIGN.md 4 C17"),
 "C19": T("exploration", RM + "footprint monitor on the recording store: a finite request alphabet repeated 4*U*(1+H*V) rounds against origins using Vary ('*', alternating sets, alternation with '*', Vary on the validator the cache adds), validation, background refresh and unsuccessful POSTs; key count and index sizes compared with explicit bounds at R/4, R/2, R, and the largest stored value must not keep growing with the rounds; emptiness after invalidation, also after a reload whose reply changed the Vary field",
   "Exceeding U*(1+H*V) keys or H*V index records, or keys left after a successful unsafe request on a store holding only the target's keys, is a violation.",
   "a leak slower than one record per round would need more rounds", "DESIGN.md 4 C19"),
 "C20": T("exploration", RM + "scenario oracle over the full grid latency x background outcome x timeout setting x caller context x validators: foreground duration, number and conditionality of background calls, the exact instant the background request is released, goroutines with repository frames after quiescence; a store-faults part repeats the judgments with one store operation after the entry went stale failing in turn; a burst part issues 2-130 stale hits at one virtual instant against a slow or silent origin (no caller may wait for the revalidations of the others)",
   "A foreground wait, a call count != 1, a missing validator, a release at another instant than min(timeout, reply) - whatever happens to the caller's context -, a leaked goroutine or a failed foreground is a violation.",
   "'never answering' observed for 10T+2h virtual", "DESIGN.md 4 C20"),
 "C16": T("exploration", "Go race detector over free-running random histories with background revalidation (Mode R), snapshot comparison of every returned header map and body at return / quiescence / end of history, and a deterministic gate scheduler (Mode S) that parks every store and origin operation of two concurrent requests and enumerates their interleavings depth-first, judging each outcome against the sequential rules (resource, variant, body token, invalidation epoch); a store-faults part fails every foreground and background store operation in turn under the same ownership monitors, with callers that read the body only after quiescence",
   "Race reports with a repository frame, any change of a returned header map after return, any modification of the caller's request, and any response of an enumerated interleaving that no sequential rule permits are violations.",
   "race detector sees only reached paths and its report set varies run to run; Mode S covers pairs of requests from a 22-request alphabet (12 key pairs in every tier; triples only sampled); interleavings inside one store/origin operation are left to Mode R", "DESIGN.md 3.6, 4 C16, A.2"),
 "C18": T("exploration", RM + "universal monitor: an only-if-cached exchange must have no upstream call (foreground or background, after quiescence) and be a usable stored response or the synthesised 504; a store-faults part repeats this with every store operation failing or returning damaged bytes in turn",
   "Any origin contact, any other result, or a stored response that needs validation is a violation.",
   "virtual time; random histories with only-if-cached sprinkled in; every method and Range requests count", "DESIGN.md 4 C18"),
}

NOT_YET = {}

def main():
    props = [json.loads(l) for l in open(os.path.join(ROOT, "properties.jsonl"))]
    checks = []
    na = []
    for p in props:
        pid = p["id"]
        if pid in CHECKS:
            level, tech, text, note, ref = CHECKS[pid]
            checks.append({
                "property_id": pid,
                "quick_cmd": f"./check run {pid} quick",
                "thorough_cmd": f"./check run {pid} thorough",
                "evidence_file": f"/verif/evidence/{pid}.json",
                "replay_cmd_template": "./check replay {path}",
                "engine": "runtime-monitor",
                "level_claimed": {"category": level, "text": text, "design_ref": ref},
                "level_note": note,
                "technique": tech,
            })
        else:
            na.append({"property_id": pid, "reason": NOT_YET.get(pid, "check not built yet in this session; runtime monitoring applies (see DESIGN.md section 4) and the check is being added")})
    m = {
        "version": 1,
        "setup_cmd": "cd /verif && ./check build",
        "hooks": {
            "guard": "verif",
            "enable": "none needed: the harness attaches through public extension points (store.Register driver, WithUpstream, WithLogger), testing/synctest virtual time and OS-level fault injection; no file in /repo carries the tag",
            "baseline_off_cmd": "/verif/scripts/baseline.sh",
            "source_commits": [],
            "add_only": True,
        },
        "engines": [
            {"name": "runtime-monitor", "path": "/verif/harness", "serves_properties": sorted(CHECKS), "kind_free_text": "Go test binaries (with and without -race) run as child processes per batch by /verif/check; monitors over recorded exchanges, store operations and histories"},
        ],
        "checks": checks,
        "notes": "All checks rebuild from /repo's working tree (go module replace => /repo). Exit 0 held, 1 VIOLATION, 2 inconclusive/harness error. known_findings.json lists open findings and fixed defects.",
        "not_applicable": na,
    }
    json.dump(m, open(os.path.join(ROOT, "MANIFEST.json"), "w"), indent=1)
    print("MANIFEST.json:", len(checks), "checks,", len(na), "not applicable")

if __name__ == "__main__":
    main()
