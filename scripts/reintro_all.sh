#!/bin/bash
# For every "fixed:" line of known_findings.json: revert that commit in /repo's
# working tree (never committed), run the property's quick check, expect a
# VIOLATION. Commits whose reverse patch no longer applies (later repairs
# touch the same lines) are reported as "not revertible on its own".
#   scripts/reintro_all.sh [commit-prefix-filter]
V=$(cd "$(dirname "$0")/.." && pwd)
cd /repo || exit 2
[ -z "$(git status --porcelain)" ] || { echo "/repo not clean"; exit 2; }
trap 'git -C /repo checkout -- . ; git -C /repo clean -fdq' EXIT
python3 - "$V/known_findings.json" <<'PY' > /tmp/reintro_list.txt
import json,sys,re
d=json.load(open(sys.argv[1]))
seen=set()
for l in d.get('fixed',[]):
    m=re.match(r'fixed: property=(C\d+) ([0-9a-f]+) ',l)
    if m and (m.group(2),m.group(1)) not in seen:
        seen.add((m.group(2),m.group(1))); print(m.group(2),m.group(1))
PY
ok=0; miss=0; skip=0
while read c p; do
  [ -n "$1" ] && [[ "$c" != $1* ]] && continue
  if ! git show "$c" | git apply -R --check 2>/dev/null; then echo "$c $p: not revertible on its own"; skip=$((skip+1)); continue; fi
  git show "$c" | git apply -R
  if ! GOFLAGS=-mod=mod GOPROXY=off go build ./... 2>/dev/null; then echo "$c $p: does not build when reverted alone"; skip=$((skip+1)); git checkout -- .; continue; fi
  out=$(cd $V && ./check run $p quick 2>&1); rc=$?
  git checkout -- . ; git clean -fdq
  if [ $rc -eq 1 ]; then ok=$((ok+1)); echo "$c $p: VIOLATION $(echo "$out" | grep -a -m1 'signature:' | sed 's/^ *signature: //' | cut -c1-90)"; else miss=$((miss+1)); echo "$c $p: NOT DETECTED (rc=$rc)"; fi
done < /tmp/reintro_list.txt
echo "reintro: detected=$ok not_detected=$miss skipped=$skip"
