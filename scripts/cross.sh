#!/bin/bash
# scripts/cross.sh "<seeded ids>" : apply each seeded change to /repo's working tree
# (never committed), run ALL quick checks, print which ones fire; restore.
V=$(cd "$(dirname "$0")/.." && pwd)
cd /repo || exit 2
[ -z "$(git status --porcelain)" ] || { echo "/repo not clean"; exit 2; }
trap 'cd /repo && git checkout -- . && git clean -fdq -- . >/dev/null 2>&1' EXIT
for id in $1; do
  d=/verif/seeded/$id
  git apply "$d/patch.diff" 2>/dev/null || { echo "$id: patch no longer applies"; continue; }
  caught=""
  for n in $(seq -w 1 20); do
    p=C$n
    out=$(cd $V && ./check run $p quick 2>&1); rc=$?
    [ $rc -eq 1 ] && caught="$caught $p[$(echo "$out" | grep -m1 'signature:' | sed 's/^ *signature: //' | cut -c1-70)]"
    [ $rc -ge 2 ] && caught="$caught $p(rc=$rc)"
  done
  git checkout -- . ; git clean -fdq -- . >/dev/null 2>&1
  echo "$id: ${caught:- none}"
done
echo CROSS DONE
