#!/bin/bash
for i in 1 2 3; do VERIF_SEED=$i ./check run C18 thorough | tail -2; python3 -c "
import json; e=json.load(open('evidence/C18.json')); print('rerun', e['coverage'].get('children_rerun_after_go_runtime_crash'))"; done
