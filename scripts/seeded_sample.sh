#!/bin/bash
# A sample of the seeded matrix (one change per property plus every C20 change):
# used after harness-wide edits when the full matrix does not fit the time left.
cd "$(dirname "$0")" || exit 2
rc=0
for p in C01-b3m2 C02-b3m2 C03-b3m2 C04-b3m2 C05-b3m2 C06-b3m2 C07-b3m2 C08-b3m3 C09-b3m2 C10-b3m2 C11-b3m2 C12-b3m2 C13-b3m2 C14-b3m3 C15-b3m2 C16-b3m2 C16-b4m1 C17-b3m2 C18-b3m2 C19-b3m2 C20; do
  ./seeded_matrix.sh $p | grep -v "^seeded matrix" || true
  [ ${PIPESTATUS[0]} -ne 0 ] && rc=1
done
echo "seeded sample: rc=$rc"; exit $rc
