#!/bin/bash
# Confirms a seeded change and runs checks against it.
#   scripts/try_seeded.sh <src dir with patch.diff demo_test.go meta.json> <seed id> <prop> [more props...]
# Results are written to /verif/seeded/<seed id>/ (patch, demo, meta.json with what was run).
export GOFLAGS=-mod=mod GOPROXY=off
src=$1; id=$2; shift 2; props="$@"
[ -f "$src/patch.diff" ] || { echo "no patch in $src"; exit 2; }
cd /repo || exit 2
[ -z "$(git status --porcelain)" ] || { echo "/repo not clean"; exit 2; }
restore() { cd /repo && git checkout -- . && git clean -fdq -- . >/dev/null 2>&1; }
trap restore EXIT
pkg=$(python3 -c "import json,sys; print(json.load(open('$src/meta.json')).get('demo_pkg_dir','.'))" 2>/dev/null || echo .)
[ -z "$pkg" ] && pkg=.
res=/tmp/seed-$id.txt; : > $res
names=$(grep -ohE '^func (Test[A-Za-z0-9_]+)' "$src/demo_test.go" | sed 's/func //' | tr '\n' '|' | sed 's/|$//')
[ -z "$names" ] && names=Demo
git apply "$src/patch.diff" || { echo "patch does not apply"; exit 2; }
if /verif/scripts/baseline.sh > /tmp/seed-base.txt 2>&1; then echo "suite_with_patch=pass" >> $res; else echo "suite_with_patch=FAIL" >> $res; cat /tmp/seed-base.txt | tail -5; fi
cp "$src/demo_test.go" "/repo/$pkg/zz_seed_demo_test.go"
if (cd /repo/$pkg && go test -vet=off -count=1 -run "^($names)\$" . > /tmp/seed-demo1.txt 2>&1); then echo "demo_with_patch=pass(unexpected)" >> $res; else echo "demo_with_patch=fail" >> $res; fi
restore
cp "$src/demo_test.go" "/repo/$pkg/zz_seed_demo_test.go"
if (cd /repo/$pkg && go test -vet=off -count=1 -run "^($names)\$" . > /tmp/seed-demo2.txt 2>&1); then echo "demo_without_patch=pass" >> $res; else echo "demo_without_patch=FAIL(unexpected)" >> $res; tail -5 /tmp/seed-demo2.txt; fi
restore
git apply "$src/patch.diff"
for p in $props; do
  out=$(cd /verif && ./check run $p quick 2>&1); rc=$?
  sigs=$(echo "$out" | grep "signature:" | head -4 | sed 's/^ *signature: //' | tr '\n' ';')
  echo "check_$p=exit$rc $sigs" >> $res
done
restore
mkdir -p /verif/seeded/$id
cp "$src/patch.diff" "$src/demo_test.go" /verif/seeded/$id/
python3 - "$src/meta.json" "$res" "/verif/seeded/$id/meta.json" <<'PY'
import json,sys
m=json.load(open(sys.argv[1]))
ran={}
for l in open(sys.argv[2]):
    k,_,v=l.strip().partition('=')
    ran[k]=v
m['confirmed']=ran
json.dump(m,open(sys.argv[3],'w'),indent=1)
print(json.dumps(ran,indent=1))
PY
