#!/bin/bash
# Re-runs the kept seeded changes against the checks: for every /verif/seeded/<id>
# apply patch.diff to /repo's working tree (never committed), run the quick check
# of the property in the id (plus any listed in meta.json "confirmed"), restore.
# Prints one line per seeded change; exit 0 iff every change is caught by at least one check.
V=$(cd "$(dirname "$0")/.." && pwd)
cd /repo || exit 2
[ -z "$(git status --porcelain)" ] || { echo "/repo not clean"; exit 2; }
trap 'cd /repo && git checkout -- . && git clean -fdq -- . >/dev/null 2>&1' EXIT
missed=0
for d in $V/seeded/*/; do
  id=$(basename "$d"); [ -n "$1" ] && [[ "$id" != $1* ]] && continue
  if grep -q '"retired"' "$d/meta.json"; then echo "$id: retired (see meta.json)"; continue; fi
  if grep -q '"known_miss"' "$d/meta.json"; then echo "$id: known miss (see meta.json)"; continue; fi
  props=$(python3 -c "
import json,sys
m=json.load(open('$d/meta.json'))
ps=[k[6:] for k in m.get('confirmed',{}) if k.startswith('check_')]
print(' '.join(ps) or '$id'.split('-')[0])")
  git apply "$d/patch.diff" 2>/dev/null || { echo "$id: patch no longer applies"; missed=$((missed+1)); continue; }
  caught=""
  for p in $props; do
    (cd $V && ./check run $p quick >/tmp/sm.out 2>&1); rc=$?
    [ $rc -eq 1 ] && caught="$caught $p"
  done
  git checkout -- . ; git clean -fdq -- . >/dev/null 2>&1
  if [ -z "$caught" ]; then echo "$id: MISSED (ran: $props)"; missed=$((missed+1)); else echo "$id: caught by$caught"; fi
done
echo "seeded matrix: missed=$missed"
[ $missed -eq 0 ]
