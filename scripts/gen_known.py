#!/usr/bin/env python3
"""Regenerates the "fixed" lines of known_findings.json from the fix: commits
in /repo (the "open" list is kept as it is)."""
import json, subprocess, os
ROOT = os.path.dirname(os.path.dirname(os.path.abspath(__file__)))
# subject prefix -> (properties, what failed)
FIXED = [
 ("fix: a valid max-age (including max-age=0)", ["C01"], "max-age=0 fell through to Expires / the Last-Modified heuristic and the response was served as fresh (grid point max-age=0 + Last-Modified)"),
 ("fix: saturate Age and delta-seconds", ["C01", "C12"], "Age / delta-seconds beyond int64 wrapped to a negative duration (Age: 100000000000000000000 served as HIT; max-age >= 9223372037 negative lifetime); a negative Age reduced the response delay"),
 ("fix: saturate the sums in the age computation", ["C01", "C11"], "clamped Age (146 y) + resident time > 146 y overflowed to a negative age: stale response served as HIT with Age: 0 (fuzz history with a 60-year and a 120-year step; grid point Age=1e20 at elapsed 150 y)"),
 ("fix: do not dereference the nil response", ["C10", "C13"], "transport error while validating a stored response panicked in HandleValidationResponse (nil *http.Response)"),
 ("fix: ignore null elements of a corrupted variant index", ["C10"], "a stored index value of [null] panicked the Vary matcher"),
 ("fix: do not panic on request URLs without a scheme", ["C10"], "http.NewRequest(GET, /relative) panicked in makeURLKey"),
 ("fix: must-revalidate and unqualified no-cache are not overridden", ["C02"], "stale must-revalidate response served unvalidated under request max-stale; immutable+no-cache served unvalidated"),
 ("fix: requests with no-cache or an exceeded max-age are not answered under stale-while-revalidate", ["C02", "C01"], "request no-cache / max-age=0 answered STALE from the store when the stored response carries stale-while-revalidate"),
 ("fix: only-if-cached never contacts the origin", ["C18", "C02", "C11"], "only-if-cached + stale must-revalidate / unqualified no-cache contacted the origin; only-if-cached + no-cache / max-age=0 served unvalidated with Age: 0"),
 ("fix: set the Age header on responses served under stale-while-revalidate", ["C11"], "STALE responses on the stale-while-revalidate path carried the origin's Age or none"),
 ("fix: remove an upstream X-From-Cache header", ["C11"], "origin-supplied X-From-Cache: 1 survived on MISS / BYPASS responses"),
 ("fix: background revalidation works on its own copy", ["C16", "C08"], "background revalidation merged 304 fields into the header map already returned to the caller (data race); background full reply rewrote the variant index with a single entry"),
 ("fix: persist the stored response freshened by a 304", ["C08"], "304 merged into the in-memory copy only: every later request revalidated again"),
 ("fix: do not write a freshened response back when the request or the merged response says no-store", ["C06"], "follow-up of the 304 write-back: a validation triggered by a no-store request wrote the 304's fields to the store"),
 ("fix: read Cache-Control directives case-insensitively", ["C12", "C01", "C02", "C06"], "No-Store, a no-store on a second Cache-Control line and max-age=\"60\" were ignored"),
 ("fix: take stale-if-error from the stored response and the request", ["C13", "C02"], "stale-if-error was read from the error reply only and ignored must-revalidate / no-cache"),
 ("fix: strip fields named by a qualified no-cache from stale-while-revalidate responses", ["C02"], "fields named by no-cache=\"...\" replayed on the stale-while-revalidate path"),
 ("fix: use the real current age when the request carries max-age=0", ["C11", "C13"], "request max-age=0 produced a fabricated age of zero (Age: 0 on stale-if-error responses; window test on age 0)"),
 ("fix: do not store a 304 received on a cache miss", ["C06", "C11"], "a 304 answering the client's own If-None-Match on a miss was stored and replayed to unconditional GETs"),
 ("fix: treat every method that is not registered as safe as unsafe", ["C07"], "PROPPATCH / MKCOL / unknown method tokens did not invalidate"),
 ("fix: delimit names and values in the variant hash", ["C04"], "{X-A:'1X-B', X-B:'2'} and {X-A:'1', X-B:'X-B2'} shared a response id and overwrote each other"),
 ("fix: evaluate Vary over all field lines", ["C04"], "Vary: X-A, * matched on X-A alone; second Vary line and second request field line ignored"),
 ("fix: only decode percent-escapes of ASCII unreserved", ["C03"], "?q=%E9 and raw UTF-8 ?q=é shared a cache key"),
 ("fix: percent-encode raw non-ASCII octets in cache keys", ["C03", "C19"], "raw invalid-UTF-8 request-target bytes: '?q=\\xe9' and '?q=\\xef\\xbf\\xbd' shared a stored response after the JSON index replaced invalid UTF-8 by U+FFFD (reported by a seeding sub-agent on the clean tree, then reproduced by C03 bulk)"),
 ("fix: keep selecting header values that are not valid UTF-8", ["C09", "C04"], "a nominated request header value with obs-text bytes (X-A: caf\\xe9) never matched its own stored variant again, and caf\\xe9 / caf\\xef\\xbf\\xbd became equal in the index"),
 ("fix: keep the brackets of IPv6 literals", ["C03"], "http://[::1]:8080/ and http://[::1:8080]/ shared a cache key"),
 ("fix: include the scheme in the cache key of opaque http(s) URLs", ["C03"], "hand-built opaque http and https URLs shared a cache key"),
 ("fix: do not reference an entry in the variant index when storing it failed", ["C06", "C10"], "index rewritten with a reference to an entry whose Set failed (body read failure, store fault)"),
 ("fix: reuse the index reference of a response id", ["C19"], "every request for a Vary: * resource appended a record to the index"),
 ("fix: never store or replay hop-by-hop fields", ["C05"], "HTTP/1.0 entries replayed Connection: close; fields named on a second Connection line were stored and replayed"),
 ("fix: remove the TE header field when storing", ["C05"], "a TE response field was stored and replayed (hop-by-hop table keyed by 'TE', header keys are canonical 'Te')"),
 ("fix: make fscache writes atomic", ["C15"], "in-place truncate+write: torn concurrent reads, and a write cut at byte k left a k-byte value that Get returned"),
 ("fix: treat a stored entry with a truncated body as corrupted", ["C10", "C15"], "a store returning an entry whose body is cut short was served as HIT and the client's body read ended in unexpected EOF (base scenarios x fault 'truncated-body')"),
 ("fix: concurrent Sets of keys that share a directory", ["C14"], "two goroutines storing different long keys with a common directory prefix: one Set failed with 'mkdirat ...: file exists'"),
 ("fix: a key's file can no longer collide with the directory of a longer key", ["C14"], "a 36-byte key and a longer key with that prefix could not coexist (ENOTDIR/EISDIR); the empty key could not be stored"),
 ("fix: list keys through the root handle", ["C14"], "Keys failed with ENAMETOOLONG for every prefix once a stored key's nested fragment directories exceeded PATH_MAX (a key of about 3 kB; Set/Get/Delete of that key worked) - thorough sequences case 27526 at seed 1, now also scripted cases 0-11"),
 ("fix: use the first occurrence of a repeated Cache-Control directive", ["C01", "C02"], "the last occurrence of a repeated directive won: 'max-age=0, max-age=3600' was served as fresh for an hour (C01 grid), 'no-cache, no-cache=\"X-Extra\"' was served without validation and request 'max-age=0, max-age=100' was answered from the store (C02 product)"),
 ("fix: a max-age that cannot be read makes the response stale", ["C01"], "max-age=abc / max-age=-5 were treated as absent: lifetime from Expires (to be ignored when max-age is present) or from the Last-Modified heuristic (C01 grid points max-age-invalid)"),
 ("fix: heuristic freshness is at most 10 %", ["C01"], "10 % of Date - Last-Modified was rounded to the nearest second: 105 s gave 11 s, 5 s gave 1 s (C01 grid, Last-Modified -105 / -5 with sub-second offsets)"),
 ("fix: responses served under stale-while-revalidate keep their Age and status fields", ["C11"], "no-cache=\"Age, X-Httpcache-Status, X-From-Cache\" removed the cache's own fields from STALE responses on the stale-while-revalidate path (C11 product / fuzz)"),
 ("fix: only-if-cached never reaches the origin, whatever the method", ["C18"], "HEAD, POST and GET+Range with only-if-cached were forwarded to the origin (C18 fuzz / store-faults with the monitor extended to all methods)"),
 ("fix: a request with an empty method is a GET", ["C09"], "Method \"\" (a GET for net/http) bypassed the cache and then invalidated the stored response (C09 scenario, empty-method follow-ups)"),
 ("fix: do not panic on an upstream response without a header map", ["C10"], "an upstream response with a nil Header map panicked on miss, bypass and validation, and took the process down in a background revalidation (C10 odd-upstream)"),
 ("fix: close upstream responses that are not passed on to the caller", ["C10"], "the 5xx reply dropped under stale-if-error, the 304 that freshened an entry and everything a background revalidation received were never closed: the connection stays checked out and a connection-limited client hangs on its next request (C10 monitor upstream-body-not-released)"),
 ("fix: with update_mtime, a Get that raced a Delete", ["C15"], "with update_mtime a Get concurrent with a Delete returned the raw chtimes ENOENT error: neither the value nor ErrNotExist (C15 concurrent, backend fsmt)"),
 ("fix: remove dot-segments spelled with %2E, and key opaque http(s) URLs by host and query too", ["C07", "C09", "C03"], "'/x/%2e%2e/r1' kept its dot-segments in the key: an unsafe request to that spelling did not invalidate (C07) and a GET of it missed (C09); URLs with Opaque set were keyed without URL.Host and RawQuery, so two hosts / two queries shared one stored response (C03 struct family)"),
 ("fix: normalise URLs whose host is an IPv6 literal with a zone", ["C07", "C09"], "hosts like [fe80::1%25eth0] made the key fall back to URL.String(): no normalisation at all, fragment in the key (C07 / C09 zone targets)"),
 ("fix: the variant index does not collect duplicate references", ["C19"], "an origin alternating between 'Vary: X-A' and 'Vary: *' (max-age=0) made the index grow by one record every two requests (C19 policy vary-alternate-xa-star)"),
 ("fix: a 304 that answers the client's own precondition", ["C02"], "a stored response without the validator the origin evaluates (none, or only Last-Modified while the client sent If-None-Match) was returned as REVALIDATED - and rewritten with the other representation's ETag - after a 304 that answered the client's own If-None-Match / If-Modified-Since (C02 client-conditionals)"),
 ("fix: normalise TE when a response varies on it", ["C09"], "the coding-list normalisation was registered for \"TE\" but looked up as \"Te\": equivalent TE spellings selected different variants (C09 header pairs te-order, te-q1)"),
 ("fix: bind encrypted entries to the key they are stored under", ["C17"], "the file of one key put in place of another key's file passed authentication and Get returned the other key's value (C17 tamper kind replace-with-other-entry)"),
 ("fix: apply index updates, freshening and invalidation to what is stored now", ["C16"], "lookups made before the origin was contacted were written back afterwards: overlapping requests for two variants lost one index entry; a 304 landing after a POST (or a reload) wrote the invalidated / replaced entry back; a background 304 for one representation was merged onto another stored under the same id (C16 Mode S)"),
 ("fix: list keys that are not valid UTF-8 byte-exactly in the maintenance API", ["C14"], "the list endpoint mangled keys that are not valid UTF-8 (U+FFFD): listed names that do not exist, distinct keys collapsing (C14 sequences through the API; the comparison used to go through the same lossy encoding)"),
 ("fix: use the first member of a list-based Age value", ["C01", "C11"], "'Age: 90, 95' counted as age 0: a response already stale on arrival was served as fresh, with a too small Age (C01 grid / pinned points)"),
 ("fix: an empty Expires field is an invalid date", ["C01"], "'Expires:' with an empty value was treated as absent and the Last-Modified heuristic applied (C01 grid value raw:)"),
 ("fix: normalise percent-encoding before removing dot-segments, and lower-case hosts in ASCII only", ["C03", "C09", "C07"], "'/a/%2E%2E/../b' shared the key of '/a/b' instead of '/b' (foreign response served, C03) and '/x/a/%2e/../b' missed '/x/b' (C09, C07); U+0130 / U+212A in host names were lower-cased to ASCII letters, merging different hosts (C03)"),
 ("fix: a response whose body fails while it is being stored is forwarded with the bytes that did arrive", ["C05"], "on a miss whose body stream failed part-way the client received zero bytes and the error instead of the bytes the origin had delivered (C05 monitor failed-body-prefix-lost)"),
 ("fix: background revalidation is bounded by the configured timeout, not by the caller's context", ["C20"], "the background request inherited the caller's context: cancelled with it right after the stale response was returned, never sent when it was cancelled beforehand (C20 grid, caller contexts)"),
 ("fix: of several stored responses that match a request the most recent one is used", ["C09"], "after the origin changed its Vary field an old stale response shadowed a newer fresh matching one and the origin was contacted (C09 variants, vary-changed scene)"),
 ("fix: entries and their index change in one step", ["C16", "C19"], "a 304 that had passed its check overwrote a newer representation stored before its write; the orphaned entry of a response whose Vary changed was freshened by a late 304 and came back, also after an invalidation (C16 Mode S, reload pairs)"),
 ("fix: a URL with an empty query is not the URL without a query", ["C03"], "'http://h/x?' and 'http://h/x' shared a key: a GET for one was answered with the response stored for the other (C03 grid, forced-query forms; the classifier now calls such pairs distinct)"),
 ("fix: fscache.Set works on its own copy of the value", ["C14"], "Set returned on its timeout while the abandoned write went on reading the caller's buffer: a caller that reused the buffer got bytes stored that it never passed to Set (C14 timeout-isolation)"),
 ("fix: list members that differ in their parameters are different members", ["C04"], "'application/json;version=1, application/json;version=2' selected the variant of 'application/json;version=1'; 'x-gzip-ng' selected the variant of 'gzip-ng' (C04 histories with such values)"),
 ("fix: a response received on a validation is filed under the client's request fields", ["C19"], "with 'Vary: If-None-Match' every validation filed its reply under the validator the cache had added: one more key per request, without bound (C19 policy vary-inm)"),
 ("fix: the replayed part of a failed body also reports the failure to io.Copy", ["C05"], "the replayed prefix of a failed body exposed bytes.Reader's WriteTo: io.Copy returned the bytes without the error (C05 monitor, callers that read with io.Copy)"),
 ("fix: fold the case of selecting header values in ASCII only", ["C04"], "strings.ToLower merged 'bot \\xe8' with 'bot \\xe9' (both become U+FFFD) and U+212A with 'k' under Vary: User-Agent (C04 histories with such values)"),
 ("fix: the age of a freshened response restarts with the 304", ["C08", "C11"], "the Age field a response had arrived with was counted on top of the restarted age after a 304 without Age: too early revalidation and a too large Age (C08 chains with Age on an earlier 304; the oracle no longer accepts the carried-over Age)"),
 ("fix: a late full reply to a validation does not replace an entry that was requested after it", ["C08"], "a late full reply of a background validation replaced the newer representation a reload had stored meanwhile (C08 inflight, background reply 200)"),
]
log = subprocess.run(["git", "-C", "/repo", "log", "--format=%h %s"], capture_output=True, text=True).stdout.splitlines()
kf_path = os.path.join(ROOT, "known_findings.json")
kf = json.load(open(kf_path)) if os.path.exists(kf_path) else {"open": [], "fixed": []}
fixed = []
used = set()
for prefix, props, what in FIXED:
    hit = [l for l in log if l.split(" ", 1)[1].startswith(prefix)]
    if not hit:
        print("WARNING: no commit for", prefix)
        continue
    h = hit[0].split()[0]
    used.add(h)
    for p in props:
        fixed.append(f"fixed: property={p} {h} {what}")
for l in log:
    h, s = l.split(" ", 1)
    if s.startswith("fix:") and h not in used:
        print("WARNING: fix commit not listed:", l)
kf["fixed"] = fixed
json.dump(kf, open(kf_path, "w"), indent=1, ensure_ascii=False)
print(len(fixed), "fixed lines")
