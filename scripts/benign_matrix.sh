#!/bin/bash
# False-alarm probe: for every <dir>/<name>/patch.diff (property-preserving
# changes to the library) apply it to /repo's working tree (never committed),
# run the quick tier of every check, restore. Any rc!=0 is printed with its
# signature lines; the replay files of alarms are kept under <dir>/<name>/alarms/.
#   scripts/benign_matrix.sh <dir> [name-prefix] [props]      (TIER=thorough for the thorough tier;
#   a file <dir>/<name>/props overrides the property list for that change)
V=$(cd "$(dirname "$0")/.." && pwd)
D=${1:?dir}; pre=$2
props=${3:-"C01 C02 C03 C04 C05 C06 C07 C08 C09 C10 C11 C12 C13 C14 C15 C16 C17 C18 C19 C20"}
cd /repo || exit 2
[ -z "$(git status --porcelain)" ] || { echo "/repo not clean"; exit 2; }
trap 'cd /repo && git checkout -- . && git clean -fdq -- . >/dev/null 2>&1' EXIT
alarms=0
for d in $D/*/; do
  id=$(basename "$d"); [ -n "$pre" ] && [[ "$id" != $pre* ]] && continue
  [ -f "$d/patch.diff" ] || continue
  [ -n "$USE_PROPS" ] && [ ! -f "$d/props" ] && continue
  git apply "$d/patch.diff" 2>/dev/null || { echo "$id: patch does not apply"; continue; }
  res=""; pl=$props; [ -f "$d/props" ] && [ -n "$USE_PROPS" ] && pl=$(cat "$d/props")
  for p in $pl; do
    out=$(cd $V && VERIF_SEED=${VERIF_SEED:-1} ./check run $p ${TIER:-quick} 2>&1); rc=$?
    if [ $rc -ne 0 ]; then
      alarms=$((alarms+1)); res="$res $p(rc=$rc)"
      mkdir -p "$d/alarms"; echo "$out" > "$d/alarms/$p.out"
      echo "$id $p rc=$rc"; echo "$out" | grep -E "^VIOLATION|signature|INCONCL|HARNESS" | head -6
      rp=$(echo "$out" | sed -n 's/^VIOLATION .*replay=\([^ ]*\).*/\1/p' | head -1)
      [ -n "$rp" ] && [ -f "$rp" ] && cp "$rp" "$d/alarms/$p.replay.json"
    fi
  done
  git checkout -- . ; git clean -fdq -- . >/dev/null 2>&1
  echo "$id: ${res:- silent}"
done
echo "benign matrix: alarms=$alarms"
