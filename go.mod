module verif

go 1.25

require (
	github.com/anishathalye/porcupine v1.3.0
	github.com/bartventer/httpcache v0.0.0
)

replace github.com/bartventer/httpcache => /repo
